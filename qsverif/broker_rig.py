"""Drive the REAL SimulatedBroker / Portfolio / Position / fee models with calls named as in
specs/Broker.tla and project the state a client can observe.  No logic of qstrader is
re-implemented here: the rig only translates units (mils <-> floats, minutes <-> Timestamps),
calls public methods and reads public getters.
"""
import contextlib
import math

import numpy as np
import pandas as pd
import pytz

EPOCH = pd.Timestamp("1970-01-01 00:00:00", tz=pytz.UTC)


def ts(minutes):
    return EPOCH + pd.Timedelta(minutes=int(minutes))


def minutes(t):
    return int((t - EPOCH) // pd.Timedelta(minutes=1))


NAN_MIL = -199999937           # what a NaN / infinite figure reported by the implementation is recorded as (never equal to a real one)


def mil(x):
    """float currency -> integer mils (nearest); NaN / inf -> NAN_MIL, so that it is compared (and differs), not crashed on."""
    x = float(x)
    if x != x or x in (float("inf"), float("-inf")):
        return NAN_MIL
    return int(round(x * 1000.0))


def cur(m):
    return m / 1000.0


NO_QUOTE = 1000000007          # mils; stands for "no quote" (NaN) in a recorded `price` call


class StubHandler(object):
    """A data handler whose bid and ask differ.  Quotes are set by the driver."""

    def __init__(self, quotes):
        self.q = dict(quotes)          # asset -> (bid, ask) floats

    def set(self, asset, bid, ask):
        self.q[asset] = (bid, ask)

    def get_asset_latest_bid_price(self, dt, asset):
        return self.q[asset][0]

    def get_asset_latest_ask_price(self, dt, asset):
        return self.q[asset][1]

    def get_asset_latest_bid_ask_price(self, dt, asset):
        return self.q[asset]

    def get_asset_latest_mid_price(self, dt, asset):
        b, a = self.q[asset]
        return (b + a) / 2.0


class Observer(object):
    """Records, from outside, the sub-events of a call: every mark and every fill that reaches a
    Portfolio.  Installed around one rig; class attributes are restored on exit."""

    def __init__(self):
        self.marks = []
        self.fills = []
        self.pid_of = {}

    @contextlib.contextmanager
    def installed(self):
        from qstrader.broker.portfolio.portfolio import Portfolio
        o_txn = Portfolio.transact_asset
        o_mark = Portfolio.update_market_value_of_asset
        obs = self

        def transact_asset(pf, txn, *args, **kwargs):
            r = o_txn(pf, txn, *args, **kwargs)
            obs.fills.append(dict(pid=pf.portfolio_id, oid=txn.order_id, asset=txn.asset,
                                  qty=txn.quantity, px=txn.price, comm=txn.commission, t=txn.dt))
            return r

        def update_market_value_of_asset(pf, asset, current_price, current_dt, *args, **kwargs):
            held = asset in pf.portfolio_to_dict()
            r = o_mark(pf, asset, current_price, current_dt, *args, **kwargs)
            if held:
                obs.marks.append(dict(pid=pf.portfolio_id, asset=asset, px=current_price, t=current_dt))
            return r

        Portfolio.transact_asset = transact_asset
        Portfolio.update_market_value_of_asset = update_market_value_of_asset
        try:
            yield self
        finally:
            Portfolio.transact_asset = o_txn
            Portfolio.update_market_value_of_asset = o_mark

    def take(self):
        m, f = self.marks, self.fills
        self.marks, self.fills = [], []
        return m, f


def make_fee(fee):
    from qstrader.broker.fee_model.percent_fee_model import PercentFeeModel
    from qstrader.broker.fee_model.zero_fee_model import ZeroFeeModel
    if fee["kind"] == "zero":
        return ZeroFeeModel()
    return PercentFeeModel(commission_pct=fee["c"] / 1000.0, tax_pct=fee["t"] / 1000.0)


def errclass(e):
    return type(e).__name__


class _Null(object):
    def write(self, _s):
        return 0

    def flush(self):
        pass


class BrokerRig(object):
    UNKNOWN = "__no_such_portfolio__"

    def __init__(self, t0, quotes_mil, fee, observer, printing=False, ctor_funds=False, ccy="USD", seconds=0.0):
        from qstrader.broker.simulated_broker import SimulatedBroker
        from qstrader.exchange.simulated_exchange import SimulatedExchange
        from qstrader import settings
        self.printing = bool(printing)         # the library's default is to print every event; output is discarded
        settings.set_print_events(self.printing)
        # how the model's assets are SPELLED for the library: as they are, or (a quarter of the rigs) lower-case / dotted /
        # mixed-case symbols - nothing in the accounting depends on the letters of a symbol
        self.spell = {"A": "EQ:aaa", "B": "brk.b", "C": "EQ:Ccc"} if (t0 // 1440) % 4 == 3 else {}
        self.unspell = dict((v, k) for k, v in self.spell.items())
        self.handler = StubHandler(dict((self.spell.get(a, a), (cur(q["bid"]), cur(q["ask"]))) for a, q in quotes_mil.items()))
        self.fee = fee
        self.obs = observer
        # every instant handed to the library is the model's minute plus a constant number of seconds (the model counts
        # minutes; 14:30:00 and 21:00:00 are whole minutes, so 20:59:59.5 is an instant in exchange hours)
        self.frac = pd.Timedelta(seconds=seconds)
        self.seconds_flag = seconds != 0.0          # the rigs that carry seconds also vary the zone of portfolio-level stamps
        ts = self.ts
        start = ts(t0)
        self.t0 = t0
        # ctor_funds: a first account subscription is delivered as the constructor's `initial_funds` instead
        self.ctor_funds = bool(ctor_funds)
        self.ncalls = 0
        self.ccy = ccy                          # the account's base currency (portfolios are created in it)
        import sys
        saved = sys.stdout
        sys.stdout = _Null()
        try:
            self.broker = SimulatedBroker(start, SimulatedExchange(self._exchange_start(start)), self.handler,
                                          account_id="acct", base_currency=ccy, initial_funds=0.0, fee_model=make_fee(fee))
        finally:
            sys.stdout = saved
            settings.set_print_events(False)
        self.oid = 0
        self.oid_of = {}             # (portfolio id, order_id) -> spec order id
        self.caller_ids = {}         # per portfolio: how many caller-named orders so far

    def ts(self, m):
        return ts(m) + self.frac

    ZONES = ["UTC", "Asia/Tokyo", "America/New_York", "Europe/Berlin"]

    def tsz(self, m):
        """The same instant, expressed in another time zone for every other rig (requests made directly on a portfolio
        compare instants, whatever zone the caller's timestamps are in; the broker's own clock stays UTC)."""
        t = self.ts(m)
        if self.seconds_flag:
            return t.tz_convert(self.ZONES[self.ncalls % len(self.ZONES)])
        return t

    # -- one call named as in the specification ---------------------------------------------
    def apply(self, c):
        import sys
        from qstrader import settings
        settings.set_print_events(self.printing)
        if not self.printing:
            return self._apply(c)
        saved = sys.stdout
        sys.stdout = _Null()
        try:
            return self._apply(c)
        finally:
            sys.stdout = saved
            settings.set_print_events(False)

    def _apply(self, c0):
        from qstrader.execution.order import Order
        b = self.broker
        c = dict(c0)
        if "asset" in c:
            c["asset"] = self.spell.get(c["asset"], c["asset"])
        op = c["op"]
        amt = c["fa"] if "fa" in c else (cur(c["a"]) if "a" in c else None)
        err = "ok"
        self.ncalls += 1
        try:
            if op == "sub_acct" and self.ctor_funds and self.ncalls == 1 and amt is not None and amt > 0:
                from qstrader.broker.simulated_broker import SimulatedBroker
                from qstrader.exchange.simulated_exchange import SimulatedExchange
                start = self.ts(self.t0)
                b = self.broker = SimulatedBroker(start, SimulatedExchange(self._exchange_start(start)), self.handler, account_id="acct",
                                                  base_currency=self.ccy, initial_funds=amt, fee_model=make_fee(self.fee))
            elif op == "sub_acct":
                b.subscribe_funds_to_account(amt)
            elif op == "wd_acct":
                b.withdraw_funds_from_account(amt)
            elif op == "create":
                b.create_portfolio(c["pid"], name="n-" + c["pid"])
            elif op == "sub_pf":
                b.subscribe_funds_to_portfolio(c["pid"], amt)
            elif op == "wd_pf":
                b.withdraw_funds_from_portfolio(c["pid"], amt)
            elif op == "submit":
                self.oid += 1
                # every third order carries a commission figure of its own and a caller-chosen id: the broker charges
                # what the fee model says regardless (C05), and ids are only names: the caller numbers the orders of EACH
                # portfolio 1, 2, ... so two portfolios' pending orders can carry the same id (seed C04-a14)
                if self.oid % 3 == 0:
                    k = self.caller_ids[c["pid"]] = self.caller_ids.get(c["pid"], 0) + 1
                    order = Order(b.current_dt, c["asset"], c["qty"], commission=7.5, order_id="caller-%d" % k)
                else:
                    order = Order(b.current_dt, c["asset"], c["qty"])
                self.oid_of[(c["pid"], order.order_id)] = self.oid
                b.submit_order(c["pid"], order)
            elif op == "update":
                b.update(self.ts(c["t"]))
            elif op == "price":
                # NO_QUOTE (a sentinel no real quote reaches): the data handler has no price at all for the asset - NaN
                self.handler.set(c["asset"], float("nan") if c["bid"] == NO_QUOTE else cur(c["bid"]),
                                 float("nan") if c["ask"] == NO_QUOTE else cur(c["ask"]))
            elif op == "pf_sub":
                b.portfolios[c["pid"]].subscribe_funds(self.tsz(c["t"]), cur(c["a"]))
            elif op == "pf_wd":
                b.portfolios[c["pid"]].withdraw_funds(self.tsz(c["t"]), cur(c["a"]))
            elif op == "pf_mark":
                b.portfolios[c["pid"]].update_market_value_of_asset(c["asset"], cur(c["px"]), self.tsz(c["t"]))
            elif op == "pf_txn":
                from qstrader.broker.transaction.transaction import Transaction
                txn = Transaction(c["asset"], c["qty"], self.tsz(c["t"]), cur(c["px"]), "direct",
                                  commission=cur(c["comm"]))
                b.portfolios[c["pid"]].transact_asset(txn)
            else:
                raise RuntimeError("unknown op %r" % (op,))
        except RuntimeError:
            raise
        except Exception as e:       # the outcome class IS the observation
            err = errclass(e)
        marks, fills = self.obs.take()
        return dict(call=c0, err=err, marks=self._marks(marks), fills=self._fills(fills), post=self.project())

    def _fills(self, fills):
        return [dict(pid=f["pid"], oid=self.oid_of.get((f["pid"], f["oid"]), 0), asset=self.unspell.get(f["asset"], f["asset"]), qty=int(f["qty"]),
                     px=mil(f["px"]), comm=mil(f["comm"]), t=minutes(f["t"]),
                     f_px=float(f["px"]), f_comm=float(f["comm"])) for f in fills]

    def _exchange_start(self, start):
        """The exchange object's own `start_dt` is a label (exchange hours are Monday-Friday 14:30-21:00 UTC whenever the
        object was created): a third of the rigs hand the broker an exchange object 'started' four days later, a third
        one 'started' a year earlier."""
        k = (self.t0 // 1440) % 3
        return start if k == 0 else (start + pd.Timedelta(days=4) if k == 1 else start - pd.Timedelta(days=365))

    def _marks(self, marks):
        return [dict(pid=m["pid"], asset=self.unspell.get(m["asset"], m["asset"]), px=mil(m["px"]), t=minutes(m["t"])) for m in marks]

    # -- what a client can observe ------------------------------------------------------------
    def project(self):
        p = project_broker(self.broker, self.oid_of, self.UNKNOWN)
        if self.unspell:
            u = self.unspell
            for pid in p["created"]:
                p["hold"][pid] = dict((u.get(a, a), v) for a, v in p["hold"][pid].items())
                p["_f"]["hold"][pid] = dict((u.get(a, a), v) for a, v in p["_f"]["hold"][pid].items())
                p["queue"][pid] = [[o[0], u.get(o[1], o[1]), o[2]] for o in p["queue"][pid]]
        return p


def project_broker(b, oid_of, UNKNOWN="__no_such_portfolio__"):
    if True:
        self = None
        p = dict(now=minutes(b.current_dt))
        cb = b.get_account_cash_balance()
        p["master"] = mil(cb[b.base_currency])
        p["other"] = sum(abs(mil(v)) for k, v in cb.items() if k != b.base_currency)
        p["created"] = list(b.portfolios.keys())
        p["cash"], p["clk"], p["hold"], p["tmv"], p["teq"] = {}, {}, {}, {}, {}
        p["trp"], p["tup"], p["ttp"], p["hist"], p["queue"] = {}, {}, {}, {}, {}
        fl = dict(hold={}, trp={}, tup={}, ttp={})
        for pid in p["created"]:
            pf = b.portfolios[pid]
            p["cash"][pid] = mil(b.get_portfolio_cash_balance(pid))
            p["clk"][pid] = minutes(pf.current_dt)
            d = b.get_portfolio_as_dict(pid)
            p["hold"][pid] = dict((a, dict(qty=_int(v["quantity"]), mv=mil(v["market_value"]), rpnl=mil(v["realised_pnl"]),
                                           upnl=mil(v["unrealised_pnl"]), tpnl=mil(v["total_pnl"])))
                                  for a, v in d.items())
            fl["hold"][pid] = dict((a, dict(mv=float(v["market_value"]), rpnl=float(v["realised_pnl"]),
                                            upnl=float(v["unrealised_pnl"]), tpnl=float(v["total_pnl"])))
                                   for a, v in d.items())
            p["tmv"][pid] = mil(b.get_portfolio_total_market_value(pid))
            p["teq"][pid] = mil(b.get_portfolio_total_equity(pid))
            fl["trp"][pid] = float(pf.total_realised_pnl)
            fl["tup"][pid] = float(pf.total_unrealised_pnl)
            fl["ttp"][pid] = float(pf.total_pnl)
            p["trp"][pid], p["tup"][pid], p["ttp"][pid] = mil(fl["trp"][pid]), mil(fl["tup"][pid]), mil(fl["ttp"][pid])
            p["hist"][pid] = [dict(kind=h.type, t=minutes(h.dt), debit=mil(h.debit), credit=mil(h.credit),
                                   bal=mil(h.balance)) for h in pf.history]
            p["queue"][pid] = [[oid_of.get((pid, o.order_id), 0), o.asset, int(o.quantity)] for o in _pending(b.open_orders[pid])]
        p["acctEq"] = _total(b.get_account_total_equity, p["teq"])
        p["acctMv"] = _total(b.get_account_total_market_value, p["tmv"])
        p["unk"] = dict(cash=_cls(lambda: b.get_portfolio_cash_balance(UNKNOWN)),
                        tmv=_cls(lambda: b.get_portfolio_total_market_value(UNKNOWN)),
                        teq=_cls(lambda: b.get_portfolio_total_equity(UNKNOWN)),
                        dict=_cls(lambda: b.get_portfolio_as_dict(UNKNOWN)),
                        ccy=_cls(lambda: b.get_account_cash_balance("XXX")))
        p["_f"] = fl
        return p


def _total(getter, per_pf):
    if True:
        """account-level totals: {"master": sum, pid: value...} -> master in mils, or the error class;
        the per-portfolio entries must be the per-portfolio getters' figures."""
        try:
            d = getter()
        except Exception as e:
            return "ERR:" + errclass(e)
        per = dict((k, mil(v)) for k, v in d.items() if k != "master")
        if per != per_pf:
            return "ERR:per-portfolio-mismatch"
        return mil(d["master"])


def _pending(q):
    """the pending orders of one portfolio, oldest first, without consuming them (queue.Queue or any sequence)"""
    if hasattr(q, "queue"):
        return list(q.queue)
    return list(q)


def _int(x):
    xi = int(x)
    if xi != x:
        raise AssertionError("non-integral quantity %r" % (x,))
    return xi


def _cls(f):
    try:
        f()
    except Exception as e:
        return errclass(e)
    return "ok"
