"""Twin / rerun engine: decides C07 (results up to T do not depend on later data) and C18
(identical inputs give identical results).

Model level.  Session.tla states causality as invariants (C07_Causal: the quotes in force while an
event is processed are those of the market truncated after that event; C07_NoFuture) and TLC checks
them on every state of every model run; TLC also runs the model on TWIN configurations (same
configuration, market rewritten / removed after a cut day T) and the printed outcomes must agree up
to T.  For a fixed configuration the model's behaviour is unique (#states = sum of run lengths:
determinism, C18); the one place where the code iterates a Python set - Signal.update_assets - is
modelled in Signals.tla as a choice of ANY order and TLC is asked for C18_TrackedOrder with and
without that choice.

Code level.  The REAL BacktestTradingSession is run on both worlds of every twin pair - fixed-weight,
universe-driven and signal-driven alpha models (the repository's TopNMomentumAlphaModel, a moving
average cross-over and an inverse-volatility model built on the real signal classes), static and
dynamic universes incl. assets whose data start later, all schedules, both sizers, fees, burn-in - and
every equity point, fill and allocation record dated <= T, and a failure at a time <= T, must be
bit-for-bit identical.  For C18 each configuration is run twice in-process, once more with data
source objects that already served another session, and in fresh interpreters under several
PYTHONHASHSEED values; digests of fills, equity and allocations must be identical.
"""
import hashlib
import importlib.util
import json
import multiprocessing
import os
import random
import shutil
import subprocess
import sys
import tempfile
from fractions import Fraction

from . import tlc
from .broker_rig import minutes, ts
from .common import REPO, Report, VERIF, seed, tier
from . import session_rig as sr
from . import engine_session as es

ALPHAS = ["config", "config", "topn", "sma", "invvol"]


# ---------------------------------------------------------------------------------------------
# alpha models built on the REAL signal classes
def _topn_class():
    path = os.path.join(REPO, "examples", "momentum_taa.py")
    spec = importlib.util.spec_from_file_location("qsv_momentum_taa", path)
    mod = importlib.util.module_from_spec(spec)
    spec.loader.exec_module(mod)
    return mod.TopNMomentumAlphaModel


def signals_factory(kind, lookback):
    def make(start, universe, dh):
        from qstrader.signals.momentum import MomentumSignal
        from qstrader.signals.signals_collection import SignalsCollection
        from qstrader.signals.sma import SMASignal
        from qstrader.signals.vol import VolatilitySignal
        sig = {"momentum": MomentumSignal(start, universe, lookbacks=[lookback]),
               "sma": SMASignal(start, universe, lookbacks=[2, lookback + 2]),
               "vol": VolatilitySignal(start, universe, lookbacks=[lookback + 1])}
        return SignalsCollection(sig, dh)
    return make


def alpha_factory(kind, lookback, topn):
    from qstrader.alpha_model.alpha_model import AlphaModel

    class SmaCross(AlphaModel):
        def __init__(self, signals, universe):
            self.signals, self.universe = signals, universe

        def __call__(self, dt):
            w = {}
            for a in self.universe.get_assets(dt):
                w[a] = 0.0
                if self.signals.warmup >= lookback + 2 and a in self.signals["sma"].assets:
                    try:
                        if self.signals["sma"](a, 2) > self.signals["sma"](a, lookback + 2):
                            w[a] = 1.0
                    except KeyError:
                        pass
            return w

    class InvVol(AlphaModel):
        def __init__(self, signals, universe):
            self.signals, self.universe = signals, universe

        def __call__(self, dt):
            w = {}
            for a in self.universe.get_assets(dt):
                w[a] = 0.0
                if self.signals.warmup >= lookback + 1 and a in self.signals["vol"].assets:
                    try:
                        v = self.signals["vol"](a, lookback + 1)
                    except KeyError:
                        continue
                    if v == v and v > 0:
                        w[a] = 1.0 / v
            return w

    def make(signals, universe, dh):
        if kind == "topn":
            return _topn_class()(signals, lookback, topn, universe, dh)
        if kind == "sma":
            return SmaCross(signals, universe)
        return InvVol(signals, universe)
    return make


# ---------------------------------------------------------------------------------------------
def gen_world(rng, realistic):
    """A configuration + which alpha to use.  `realistic`: arbitrary cent prices, 0.6/0.4-style weights."""
    c = sr.gen_config(rng, allow_fail=True)
    spec = dict(cfg=c, alpha=rng.choice(ALPHAS), lookback=rng.choice([1, 2, 3]), topn=rng.choice([1, 2]))
    if spec["alpha"] != "config":
        # signal-driven: needs a (dynamic or static) universe over the assets and long-only sizing for inverse vol
        if not c["entry"]:
            c["entry"] = dict((a, 0) for a in c["assets"])
        if spec["alpha"] in ("topn", "invvol", "sma"):
            c["kind"], c["par"] = "dw", rng.choice(["0", "1/8", "1/4"])
    if rng.random() < 0.3 and c["market"]:
        # an asset whose data start only after the backtest has begun although it is weighted / in the universe
        # from the start: whatever happens before its first bar must not depend on what its later bars say
        a = rng.choice(sorted(c["market"]))
        ds = sorted(int(d) for d in c["market"][a])
        first = rng.choice(ds[len(ds) // 3:]) if len(ds) >= 3 else ds[-1]
        c["market"][a] = dict((str(d), v) for d, v in ((int(d), v) for d, v in c["market"][a].items()) if d >= first)
        if c["alpha"] == "single" or spec["alpha"] != "config":
            c["entry"][a] = 0
        spec["late_start"] = a
    if realistic:
        for a, bars in c["market"].items():
            for d in bars:
                o, cl = bars[d]
                bars[d] = [0 if o == 0 else rng.randint(500, 25000) * 10, 0 if cl == 0 else rng.randint(500, 25000) * 10]
        c["cash"] = rng.choice([1000000, 25000370, 100000000])
        if c["fee"]["kind"] == "percent":
            c["fee"] = dict(kind="percent", c=rng.choice([1, 5, 10]), t=rng.choice([0, 1, 5]))
        if c["alpha"] == "fixed" and spec["alpha"] == "config":
            keys = list(c["weights"])
            c["weights"] = dict((a, rng.choice([1, 2, 3, 4, 6]) * (-1 if c["kind"] == "ls" and rng.random() < 0.3 else 1)) for a in keys)
            spec["wdiv"] = 10
        c["par"] = rng.choice(["0.05", "0.1", "0.01"]) if c["kind"] == "dw" else rng.choice(["1", "1.5", "2"])
    return spec


ADJ_RATIOS = [(1, 2), (3, 4), (9, 10), (11, 10), (1, 1)]


def add_adjustment(spec, rng):
    """Adjusted closes that differ from the closes (splits / dividends): a constant ratio per asset.  Real two-world runs only."""
    c = spec["cfg"]
    c["adj"] = {}
    for a, bars in c["market"].items():
        n, d = rng.choice(ADJ_RATIOS)
        c["adj"][a] = dict((str(day), oc[1] * n // d) for day, oc in bars.items())


def unadjusted_whole_number_opens(spec, rng):
    """Unadjusted prices (adjust_prices=False) read from files in which whole numbers carry no decimal point, and every
    open up to the cut day is a whole number (the closes are not): what pandas infers for a column from the WHOLE file -
    rows after the cut day included - must not reach the prices before it.  Real two-world runs only."""
    c = spec["cfg"]
    c["unadjusted"], c["intfmt"], c["default_dh"] = True, True, False
    for bars in c["market"].values():
        for d, oc in bars.items():
            if oc[0] == 12500:
                oc[0] = rng.choice([8000, 10000, 16000])


def _burn_in_past_first_bar(spec, late):
    """Make `spec` (signal-driven, asset `late` in the universe from the start but without data at first) trade daily from the
    close of the late asset's first bar on: during the burn-in its price is MISSING and the signals are fed exactly that;
    the first rebalances then look back over those days.  False if the calendar leaves no room."""
    c = spec["cfg"]
    first = min(int(d) for d in c["market"][late])
    if not (c["start"] // 1440 < first < c["end"] // 1440 - 1):
        return False
    c["sched"], c["burn"] = "daily", first * 1440 + 1260
    spec["lookback"] = 3
    return True


def twin_of(spec, rng, corrupt_ok=False):
    """Second world: identical up to the cut day T, rewritten / removed afterwards.  corrupt_ok: the rewritten future may
    hold literal zeros and negative prices (REAL two-world runs only: the Session model's markets are prices or blanks)."""
    c = spec["cfg"]
    days = sorted(set(int(d) for bars in c["market"].values() for d in bars))
    if not days:
        return None, None
    lo, hi = c["start"] // 1440, c["end"] // 1440
    T = rng.randint(lo - 1, hi)
    c2 = json.loads(json.dumps(c))
    mode = rng.choice(["rewrite", "remove", "both", "add"])
    corrupt = corrupt_ok and random.Random(T * 31 + len(days)).random() < 0.3        # (second stream: the other draws stay as they were)
    for a in list(c2["market"]):
        bars = c2["market"][a]
        for d in list(bars):
            if int(d) > T:
                k = rng.random()
                if mode == "remove" or (mode == "both" and k < 0.5):
                    del bars[d]
                elif mode in ("rewrite", "both"):
                    o, cl = bars[d]
                    lv = sr.PRICE_LEVELS if max(o, cl) <= 16000 else [x * 10 for x in range(500, 25000, 777)]
                    bars[d] = [rng.choice(lv + [0]), rng.choice(lv + [0])]
                    if corrupt and rng.random() < 0.25:
                        # "arbitrary other values": a literal zero or a negative price in a bar after the cut day
                        bars[d][rng.randrange(2)] = rng.choice([sr.ZERO_LIT, -5000, -12500])
                    if "adj" in c2:
                        n, dd = rng.choice(ADJ_RATIOS)
                        c2["adj"][a][str(d)] = rng.choice([0, bars[d][1] * n // dd, bars[d][1]])   # blank / another ratio / none
        if mode == "add":
            for d in range(T + 1, hi + 1):
                if sr.is_bday(d) and str(d) not in bars and d not in bars:
                    bars[str(d)] = [rng.choice(sr.PRICE_LEVELS), rng.choice(sr.PRICE_LEVELS)]
                    if "adj" in c2:
                        c2["adj"].setdefault(a, {})[str(d)] = rng.choice([0, bars[str(d)][1] // 2, bars[str(d)][1]])
        if not bars:
            del c2["market"][a]           # removed altogether: no file
    s2 = dict(spec)
    s2["cfg"] = c2
    return s2, T


def run_world(spec, sd):
    c = spec["cfg"]
    if spec.get("wdiv"):
        c = dict(c)
        # the weights reach the code as 0.6 / 0.4 style floats (the model is not involved in twin runs)
    kw = {}
    if spec["alpha"] != "config":
        kw["signals_factory"] = signals_factory(spec["alpha"], spec["lookback"])
        kw["alpha_factory"] = alpha_factory(spec["alpha"], spec["lookback"], spec["topn"])
    elif spec.get("wdiv") and c["alpha"] == "fixed":
        from qstrader.alpha_model.fixed_signals import FixedSignalsAlphaModel
        w = dict((sr.SYM[a], v / float(spec["wdiv"])) for a, v in c["weights"].items())
        kw["alpha_factory"] = lambda signals, universe, dh: FixedSignalsAlphaModel(w)
    return sr.run_real(c, random.Random(sd), **kw)


def prefix(out, T):
    """Everything the property talks about, dated on or before day T, as exact values."""
    lim = (T + 1) * 1440
    p = dict(curve=[(t, str(v)) for t, v in out.curve if t < lim],
             fills=[(t, a, q, str(px), str(cm)) for t, a, q, px, cm in out.fills if t < lim],
             allocs=[(t, sorted((k, repr(float(v))) for k, v in w.items())) for t, w in out.allocs if t < lim])
    f = out.failure
    p["failure"] = [f[0], f[1], out.extra.get("message", "")] if f is not None and f[1] < lim else None
    # the allocation table the session reports (get_target_allocations): rows dated <= T; only a completed run has one
    df = getattr(out, "alloc_df", None)
    if df:
        day = ts(T * 1440).strftime("%Y-%m-%d")
        p["alloc_table"] = [(d, sorted((k, repr(v)) for k, v in row.items())) for d, row in zip(df["index"], df["rows"]) if d[:10] <= day]
    else:
        p["alloc_table"] = None
    return p


def _twin_job(job):
    spec, spec2, T, sd = job
    if REPO not in sys.path:
        sys.path.insert(0, REPO)
    try:
        o1 = run_world(spec, sd)
        o2 = run_world(spec2, sd + 1)
    except Exception as e:
        return ("rig", "%s: %s" % (type(e).__name__, e), None)
    p1, p2 = prefix(o1, T), prefix(o2, T)
    diffs = [k for k in p1 if p1[k] != p2[k] and not (k == "alloc_table" and (p1[k] is None or p2[k] is None))]
    stat = dict(points=len(p1["curve"]), fills=len(p1["fills"]), allocs=len(p1["allocs"]), failed=p1["failure"] is not None,
                total_points=len(o1.curve))
    if not diffs:
        return ("ok", stat, None)
    k = diffs[0]
    a, b = p1[k], p2[k]
    first = None
    if isinstance(a, list) and isinstance(b, list):
        for i in range(max(len(a), len(b))):
            x = a[i] if i < len(a) else None
            y = b[i] if i < len(b) else None
            if x != y:
                first = (x, y)
                break
    else:
        first = (a, b)
    return ("diff", stat, dict(what=k, first=first))


# ---------------------------------------------------------------------------------------------
def digest_outcome(out):
    blob = json.dumps(dict(curve=[(t, str(v)) for t, v in out.curve],
                           fills=[(t, a, q, str(px), str(cm)) for t, a, q, px, cm in out.fills],
                           allocs=[(t, sorted((k, repr(float(v))) for k, v in w.items())) for t, w in out.allocs],
                           failure=list(out.failure) if out.failure else None), sort_keys=True)
    return hashlib.sha1(blob.encode()).hexdigest(), blob


def f5_spec(rng):
    """Dynamic universe in which several assets enter at the same close with TIED momentum, top-N momentum
    alpha: the asset bought depends on the order in which the signal started tracking them."""
    d0 = 18267
    days = sr.bdays(d0 - 2, d0 + 16)
    entry_close = (d0 + rng.choice([2, 3])) * 1440 + 1260
    assets = ["A", "B", "C"]
    market = {}
    for a in assets:
        market[a] = dict((str(d), [10000, 10000]) for d in days)       # flat: every momentum is exactly 0 -> ties
    c = dict(start=d0 * 1440, end=(d0 + 16) * 1440 + 1439, sched="daily", wd=0, kind="dw", par="1/8",
             fee=dict(kind="zero", c=0, t=0), cash=1000000, alpha="single", weights={}, burn=-1,
             entry=dict((a, entry_close) for a in assets), market=market, assets=assets)
    return dict(cfg=c, alpha="topn", lookback=2, topn=1)


def _order_sensitive(ws, lev, cash, pxs):
    """Input selection only (not an oracle): would a plain left-to-right float sum of the weights, taken in a different
    order, move some whole-share target?  Mirrors the sizers' float arithmetic closely enough to find such inputs."""
    import itertools
    import math
    names = sorted(ws)
    seen = {}
    perms = list(itertools.permutations(names))
    for perm in perms:
        g = 0.0
        for a in perm:
            g = g + abs(ws[a]) / 10.0
        ratio = lev / g
        k = (tuple(int(math.floor((cash / 1000.0) * ((ws[a] / 10.0) * ratio)) / (pxs[a] / 1000.0)) for a in names),
             tuple(int(math.floor((cash / 1000.0) * ((ws[a] / 10.0) / g * lev)) / (pxs[a] / 1000.0)) for a in names))
        seen[k] = seen.get(k, 0) + 1
    return len(seen) > 1 and max(seen.values()) * 3 <= len(perms) * 2       # no outcome covers more than 2/3 of the orders


def boundary_spec(rng):
    """Decimal weights (0.1 / 0.2 / 0.3 ...), round prices and a round account, chosen so that (i) the float sum of
    the weights depends on the order of summation and (ii) some exact target is a whole number of shares: a last-bit
    difference in any intermediate float (for instance a sum taken in set order) then moves a quantity by one share.
    Three to five assets with names of different lengths."""
    for _try in range(400):
        d0 = rng.choice([18267, 18288, 18317])
        n = rng.choice([3, 3, 4, 5])
        assets = rng.sample(["A", "B", "C", "D", "E", "QQ", "ZYX"], n)
        pxs = dict((a, rng.choice([10000, 20000, 25000, 50000, 100000])) for a in assets)
        kind = rng.choice(["ls", "ls", "ls", "dw"])
        ws = dict((a, rng.choice([1, 2, 3, 4, 6, 7]) * (-1 if kind == "ls" and rng.random() < 0.25 else 1)) for a in assets)
        par = rng.choice(["1", "2"]) if kind == "ls" else "0"
        cash = rng.choice([1000000000, 100000000])
        if _order_sensitive(ws, int(par) if kind == "ls" else 1, cash, pxs):
            break
    days = sr.bdays(d0 - 3, d0 + 11)
    market = dict((a, dict((str(d), [pxs[a], pxs[a]]) for d in days)) for a in assets)
    c = dict(start=d0 * 1440, end=(d0 + 11) * 1440 + 1439, sched=rng.choice(["weekly", "daily"]), wd=rng.randrange(5), kind=kind,
             par=par, fee=dict(kind="zero", c=0, t=0), cash=cash, alpha="fixed", weights=ws, burn=-1,
             entry=dict((a, 0) for a in assets), market=market, assets=sorted(assets))
    return dict(cfg=c, alpha="config", lookback=1, topn=1, wdiv=10, boundary=True)


def child_main():
    """Run one spec in THIS interpreter (fresh process, PYTHONHASHSEED set by the parent); print the digest."""
    spec = json.load(sys.stdin)
    if REPO not in sys.path:
        sys.path.insert(0, REPO)
    out = run_world(spec, 12345)
    d, blob = digest_outcome(out)
    print("DIGEST " + d)
    print("FILLS " + json.dumps([(str(ts(t)), a, q) for t, a, q, _p, _c in out.fills][:12]))


def run_in_fresh_interpreter(spec, hashseed):
    env = dict(os.environ, PYTHONHASHSEED=str(hashseed), PYTHONDONTWRITEBYTECODE="1", QSVERIF_REPO=REPO)
    p = subprocess.run(["/venv/bin/python", "-c", "import sys; sys.path.insert(0, %r); from qsverif import engine_twin; engine_twin.child_main()" % VERIF],
                       input=json.dumps(spec).encode(), stdout=subprocess.PIPE, stderr=subprocess.PIPE, env=env, cwd=VERIF)
    out = p.stdout.decode()
    dg = [l[7:] for l in out.split("\n") if l.startswith("DIGEST ")]
    fl = [l[6:] for l in out.split("\n") if l.startswith("FILLS ")]
    if not dg:
        return None, p.stderr.decode()[-800:]
    return dg[0], fl[0] if fl else ""


def _seed_job(job):
    spec, hs = job
    return run_in_fresh_interpreter(spec, hs)


# ---------------------------------------------------------------------------------------------
def model_twins(rep, rng, n):
    """TLC runs Session on twin configurations (fixed / universe-driven alpha, exact grid); outcomes up to T must agree."""
    pairs = []
    while len(pairs) < n:
        spec = dict(cfg=sr.gen_config(rng), alpha="config")
        s2, T = twin_of(spec, rng)
        if s2 is None:
            continue
        pairs.append((spec["cfg"], s2["cfg"], T))
    w = tlc.scratch()
    try:
        tlc.stage_all(w)
        cfgs = [c for p in pairs for c in (p[0], p[1])]
        try:
            exps = es.tlc_outcomes(w, cfgs, rep, "MC_Session(twin configurations)")
        except tlc.TLCError as e:
            rep.machinery.append(str(e)[-2000:])
            return 0
    finally:
        shutil.rmtree(w, ignore_errors=True)
    bad = 0
    for i, (c1, c2, T) in enumerate(pairs):
        e1, e2 = exps[2 * i], exps[2 * i + 1]
        if e1 is None or e2 is None:
            continue
        lim = (T + 1) * 1440
        cut = lambda e: (([e[0], e[1]] if e[0] and e[1] < lim else None), [x for x in e[2] if x[0] < lim],
                         [x for x in e[3] if x[0] < lim], [x for x in e[4] if x[0] < lim])
        if cut(e1) != cut(e2):
            bad += 1
            rep.machinery.append("the MODEL is not causal on a twin pair (spec error): cut %s, %s vs %s" % (T, cut(e1), cut(e2)))
    rep.cov["model_twin_pairs"] = len(pairs)
    return len(pairs)


def model_determinism(rep, rng, n):
    """For a fixed configuration the Session model has exactly one behaviour: TLC must generate as many states as
    it finds distinct ones (no state with two successors, no two runs merging) and exactly one outcome per run."""
    cfgs = [sr.gen_config(rng, alpha_kinds=("fixed", "single", "topn")) for _ in range(n)]
    w = tlc.scratch()
    try:
        tlc.stage_all(w)
        try:
            exps = es.tlc_outcomes(w, cfgs, rep, "MC_Session(determinism)")
        except tlc.TLCError as e:
            rep.machinery.append(str(e)[-1500:])
            return
    finally:
        shutil.rmtree(w, ignore_errors=True)
    runs = [r for r in rep.cov.get("tlc_runs", []) if r["name"] == "MC_Session(determinism)"]
    branching = [r for r in runs if r["generated"] != r["distinct"]]
    rep.cov["model_determinism"] = dict(configurations=len([e for e in exps if e is not None]),
                                        states=sum(r["distinct"] for r in runs), branching_runs=len(branching))
    if branching:
        rep.machinery.append("the Session model branches for a fixed configuration (generated %s != distinct %s): "
                             "specification error" % (branching[0]["generated"], branching[0]["distinct"]))


def signals_order_check(rep):
    """Signals.tla models list(set(...) - set(...)) as ANY order (HashOrder = TRUE) or the universe's own order.
    TLC must find the order-dependence in the first and prove its absence in the second."""
    w = tlc.scratch()
    try:
        tlc.stage_all(w)
        res = {}
        for hash_order in ("TRUE", "FALSE"):
            with open(os.path.join(w, "o.cfg"), "w") as fh:
                fh.write('SPECIFICATION Spec\nCONSTANTS\n  Assets = {"A", "B", "C"}\n  Lookbacks = {1}\n  Prices = {1, 2}\n'
                         '  EntryAt <- MCEntryA\n  MaxTicks = 4\n  AssetOrder <- MCOrder\n  HashOrder = %s\nPROPERTY C18_TrackedOrder\nCHECK_DEADLOCK FALSE\n' % hash_order)
            r = tlc.run(w, "MC_Signals", "o.cfg", workers=8, timeout=1200)
            res[hash_order] = r
            rep.add_mc(r, "MC_Signals(HashOrder=%s)" % hash_order)
        rep.cov["spec_sensitivity"] = dict(HashOrder_TRUE=res["TRUE"].violated, HashOrder_FALSE=res["FALSE"].violated)
        if res["FALSE"].violated is not None:
            rep.machinery.append("Signals.tla with the universe's own order violates %s (spec error)" % res["FALSE"].violated)
        if res["TRUE"].violated is None:
            rep.machinery.append("sensitivity: TLC did not find the order dependence with HashOrder = TRUE")
    except tlc.TLCError as e:
        rep.machinery.append("TLC failed on MC_Signals order check: %s" % str(e)[-1500:])
    finally:
        shutil.rmtree(w, ignore_errors=True)


def run(prop, replay_file=None):
    rep = Report(prop)
    t, sd = tier(), seed()
    rng = random.Random(sd * 7907 + (7 if prop == "C07" else 18))
    if prop == "C07":
        rep.assumptions = ["a market is asset -> dated bars; an asset left with no bar at all has NO file (a header-only CSV cannot be loaded)",
                           "outputs compared: equity points, fills (time, asset, quantity, price, commission), allocation records and the rows of the "
                           "reported allocation table (when both runs complete) dated <= T, "
                           "and a failure (type, message, event time) at a time <= T; compared exactly (floats as exact fractions)"]
        if replay_file:
            payload = json.load(open(replay_file))
            jobs = [(payload["spec"], payload["spec2"], payload["T"], payload["seed"])]
        else:
            model_twins(rep, rng, 60 if t == "quick" else 1500)
            jobs = []
            n = 480 if t == "quick" else 30000
            while len(jobs) < n:
                spec = gen_world(rng, realistic=(len(jobs) % 3 == 2))
                if len(jobs) % 4 == 1:
                    add_adjustment(spec, rng)
                elif len(jobs) % 8 == 3:
                    unadjusted_whole_number_opens(spec, random.Random(len(jobs)))
                s2, T = twin_of(spec, rng, corrupt_ok=True)
                if s2 is None:
                    continue
                jobs.append((spec, s2, T, sd * 1000 + len(jobs)))
        with multiprocessing.Pool(16) as pool:
            results = pool.map(_twin_job, jobs, chunksize=2)
        nontriv = 0
        for job, (status, stat, diff) in zip(jobs, results):
            rep.cov["evaluations"] += 1
            if status == "rig":
                rep.machinery.append(stat)
                continue
            if stat["fills"] and stat["points"] >= 2 and stat["points"] < stat["total_points"]:
                nontriv += 1
            if status == "diff":
                spec, spec2, T, jsd = job
                late = any(min(int(d) for d in bars) > spec["cfg"]["start"] // 1440 for bars in spec["cfg"]["market"].values() if bars)
                key = "twin|%s|%s" % (diff["what"], "late-starting-asset" if late else "general")
                rep.violation(key, "%s dated <= %s differ between the two worlds (alpha %s): first difference %s; configuration %s" % (
                    diff["what"], ts(T * 1440).date(), spec["alpha"], diff["first"], es._brief(spec["cfg"])),
                    dict(spec=spec, spec2=spec2, T=T, seed=jsd))
        for job in jobs[:2]:
            rep.sample(dict(cut_day=str(ts(job[2] * 1440).date()), alpha=job[0]["alpha"], configuration=es._brief(job[0]["cfg"]),
                            bars_world_1=dict((a, len(b)) for a, b in job[0]["cfg"]["market"].items()),
                            bars_world_2=dict((a, len(b)) for a, b in job[1]["cfg"]["market"].items())))
        rep.cov["traces_validated_against_impl"] = len(jobs)
        rep.cov["distinct_nontrivial"] = nontriv
        rep.cov["rule"] = ("twin pairs drawn by seed: a configuration (fixed-weight / universe-driven / top-N momentum / SMA cross-over / inverse "
                           "volatility alpha; exact-grid and realistic markets) and its market rewritten, removed, both, or extended after a random "
                           "cut day T; non-trivial = at least one fill and two equity points on or before T and at least one equity point after T")
        rep.cov["exhaustive"] = False
        return rep
    # ---- C18 ----
    rep.assumptions = ["digest = fills without order identifiers, equity curve, allocation records, failure; compared bit for bit",
                       "fresh interpreters under PYTHONHASHSEED 0..7 (thorough: 0..11 and 'random')"]
    signals_order_check(rep)
    model_determinism(rep, rng, 80 if t == "quick" else 1500)
    n = 18 if t == "quick" else 240
    if replay_file:
        specs = [json.load(open(replay_file))["spec"]]
    else:
        specs = [f5_spec(rng), f5_spec(rng)] + [boundary_spec(rng) for _ in range(8 if t == "quick" else 80)]
        while len(specs) < n:
            specs.append(gen_world(rng, realistic=(len(specs) % 2 == 0)))
        # ... plus configurations in which an asset's data start only after the backtest has begun while something CONSUMES its
        # missing price (a signal over a universe it belongs to from the start, or a fixed weight on it - then the run must
        # fail): a missing price is missing whatever the objects involved have answered before
        rng_late = random.Random(sd * 7907 + 1818)
        for _ in range(4 if t == "quick" else 40):
            for _try in range(400):
                sp = gen_world(rng_late, realistic=False)
                la = sp.get("late_start")
                if la and sp["alpha"] != "config" and _burn_in_past_first_bar(sp, la):
                    specs.append(sp)
                    break
    for k, spec in enumerate(specs):
        if k % 4 == 1 and not replay_file:
            spec["cfg"]["split_orders"] = True         # several orders on one side of one asset in a single update
    if REPO not in sys.path:
        sys.path.insert(0, REPO)
    seeds = [str(k) for k in range(12)] + ["random"] if t == "thorough" else [str(k) for k in range(8)]
    with multiprocessing.Pool(16) as pool:
        fresh = pool.map(_seed_job, [(s, hs) for s in specs for hs in seeds], chunksize=1)
    nontriv = 0
    for i, spec in enumerate(specs):
        rep.cov["evaluations"] += 1
        o1 = run_world(spec, 12345)
        o2 = run_world(spec, 12345)
        d1, _b1 = digest_outcome(o1)
        d2, _b2 = digest_outcome(o2)
        if o1.fills and len(o1.curve) >= 2:
            nontriv += 1
        if d1 != d2:
            rep.violation("rerun|same-process", "two runs in the same process differ; configuration %s" % es._brief(spec["cfg"]), dict(spec=spec))
        # data-source objects that already served another session (warm memoisation)
        d3 = warm_digest(spec)
        if d3 is not None and d3 != d1:
            rep.violation("rerun|warm-data-source", "a run with data-source objects that already served another session differs; "
                          "configuration %s" % es._brief(spec["cfg"]), dict(spec=spec))
        if i % 2 == 0:
            after = after_unrelated_session_digest(spec)
            if after is not None:
                after, ref_plain = after
                rep.cov["runs_after_an_unrelated_session"] = rep.cov.get("runs_after_an_unrelated_session", 0) + 1
                if after != ref_plain:
                    rep.violation("rerun|after-unrelated-session", "the same backtest gives another result after an unrelated session (same symbols, "
                                  "other prices) has run in the same interpreter, both using the session's default data handler; configuration %s"
                                  % es._brief(spec["cfg"]), dict(spec=spec))
        if i % 3 == 0:
            bad = recycled_source_answers(spec)
            if bad is not None:
                rep.cov["throw_away_data_sources"] = rep.cov.get("throw_away_data_sources", 0) + 18
                if bad:
                    rep.violation("rerun|recycled-data-source", "a data source created after others had been thrown away answers differently from the "
                                  "first source over the same files (rounds %s of 16; the interpreter recycles object addresses); configuration %s"
                                  % (bad[:6], es._brief(spec["cfg"])), dict(spec=spec))
        pair = shared_alpha_digests(spec)
        if pair is not None:
            rep.cov["runs_sharing_an_alpha_model_object"] = rep.cov.get("runs_sharing_an_alpha_model_object", 0) + 2
            if pair[0] != pair[1] or pair[0] != d1:
                rep.violation("rerun|shared-alpha-model", "two sessions given the same alpha-model object (its forecast passed through both "
                              "optimisers in between) differ from each other or from a run with fresh objects: %s / %s vs %s; configuration %s" % (
                                  pair[0][:8], pair[1][:8], d1[:8], es._brief(spec["cfg"])), dict(spec=spec))
        if i % 3 == 2 and not spec.get("wdiv") and spec["cfg"]["market"]:
            two = two_source_digests(spec)
            if two is not None:
                rep.cov["two_source_runs"] = rep.cov.get("two_source_runs", 0) + len(two)
                if len(set(two)) > 1 or two[0] != d1:
                    rep.violation("rerun|two-data-sources", "runs whose handler has a primary and a fallback data source (rebuilt for every run) differ "
                                  "from each other or from the run on the primary source alone: digests %s vs %s; configuration %s" % (
                                      sorted(set(x[:8] for x in two)), d1[:8], es._brief(spec["cfg"])), dict(spec=spec))
        got = fresh[i * len(seeds):(i + 1) * len(seeds)]
        ds = {}
        for hs, (dg, info) in zip(seeds, got):
            if dg is None:
                rep.machinery.append("child interpreter failed: %s" % info)
                continue
            ds.setdefault(dg, []).append((hs, info))
        if len(ds) > 1 or (ds and d1 not in ds):
            tied = spec["alpha"] == "topn" and spec["cfg"]["alpha"] == "single"
            key = "rerun|hash-seed|%s" % ("topn-tied-late-entrants" if tied else "general")
            rep.violation(key, "results differ across interpreter hash seeds: %s; configuration %s (alpha %s)" % (
                dict((k[:8], v) for k, v in ds.items()), es._brief(spec["cfg"]), spec["alpha"]), dict(spec=spec))
        if i < 2:
            rep.sample(dict(alpha=spec["alpha"], configuration=es._brief(spec["cfg"]), digest=d1,
                            digests_by_hash_seed=dict((hs, (dg or "")[:12]) for hs, (dg, _i) in zip(seeds, got))))
    rep.cov["traces_validated_against_impl"] = len(specs) * (len(seeds) + 3)
    rep.cov["distinct_nontrivial"] = max(nontriv, 0)
    rep.cov["rule"] = ("configurations drawn by seed (the first two: several assets entering a dynamic universe at the same close with tied "
                       "momentum under the top-N momentum alpha model; then boundary configurations: three to five assets, decimal weights, "
                       "round prices and account, so that every target is exactly a whole share); each run twice in-process, once with warm data sources and once per hash "
                       "seed in a fresh interpreter; non-trivial = at least one fill and two equity points")
    rep.cov["exhaustive"] = False
    return rep


def warm_digest(spec):
    """Same configuration, but the CSVDailyBarDataSource / handler objects have already served a different session
    and thousands of unrelated queries (lru_cache warm)."""
    c = spec["cfg"]
    d = tempfile.mkdtemp(prefix="qsv-warm-")
    try:
        sr.write_market(d, c["market"], random.Random(5))
        from qstrader.asset.equity import Equity
        from qstrader.data.daily_bar_csv import CSVDailyBarDataSource
        syms = sorted(c["market"])
        ds = CSVDailyBarDataSource(d, Equity, csv_symbols=syms)
        # unrelated earlier use: other instants, reverse order
        for a in syms:
            for m in range(c["end"] + 3000, c["start"] - 3000, -397):
                try:
                    ds.get_bid(ts(m), "EQ:" + a)
                    ds.get_ask(ts(m), "EQ:" + a)
                except Exception:
                    pass
        # ... and queries whose wall clock in another zone reads 14:30 / 21:00 while the instant is an hour (Berlin) or nine
        # hours (Tokyo) earlier: a memo keyed on the wall clock would hand those answers to the backtest
        for a in syms:
            for day in range(c["start"] // 1440 - 1, c["end"] // 1440 + 2):
                for m, zone in ((870 - 60, "Europe/Berlin"), (1260 - 60, "Europe/Berlin"), (870 - 540, "Asia/Tokyo"), (1260 - 540, "Asia/Tokyo")):
                    try:
                        ds.get_bid(ts(day * 1440 + m).tz_convert(zone), "EQ:" + a)
                        ds.get_ask(ts(day * 1440 + m).tz_convert(zone), "EQ:" + a)
                    except Exception:
                        pass
        # ... and the session's own instants (14:30 / 21:00 UTC) WRITTEN in other zones: equal as instants - and as memo keys - to
        # what the backtest will ask; an answer computed from the wall-clock reading would be handed to the backtest
        for a in syms:
            for day in range(c["start"] // 1440 - 1, c["end"] // 1440 + 2):
                for m, zone in ((870, "Asia/Tokyo"), (1260, "America/New_York"), (870, "America/New_York"), (1260, "Europe/Berlin")):
                    try:
                        ds.get_bid(ts(day * 1440 + m).tz_convert(zone), "EQ:" + a)
                        ds.get_ask(ts(day * 1440 + m).tz_convert(zone), "EQ:" + a)
                    except Exception:
                        pass
        # one data HANDLER object for both sessions as well, after it has answered for instants before the assets' first bars
        from qstrader.data.backtest_data_handler import BacktestDataHandler
        shared_dh = BacktestDataHandler(None, data_sources=[ds])
        for a in syms:
            for m in (c["start"] - 40000, c["start"] - 20000, c["start"] - 1):
                try:
                    shared_dh.get_asset_latest_bid_price(ts(m), "EQ:" + a)
                    shared_dh.get_asset_latest_ask_price(ts(m), "EQ:" + a)
                    shared_dh.get_asset_latest_mid_price(ts(m), "EQ:" + a)
                except Exception:
                    pass
        outs = []
        for _ in range(2):        # the first session warms the very instants the second will ask for
            kw = {}
            if spec["alpha"] != "config":
                kw["signals_factory"] = signals_factory(spec["alpha"], spec["lookback"])
                kw["alpha_factory"] = alpha_factory(spec["alpha"], spec["lookback"], spec["topn"])
            elif spec.get("wdiv") and c["alpha"] == "fixed":
                from qstrader.alpha_model.fixed_signals import FixedSignalsAlphaModel
                w = dict((sr.SYM[a], v / float(spec["wdiv"])) for a, v in c["weights"].items())
                kw["alpha_factory"] = lambda signals, universe, dh, w=w: FixedSignalsAlphaModel(w)
            outs.append(_run_with_sources(c, d, [ds], data_handler=shared_dh, **kw))
        return digest_outcome(outs[1])[0]
    except Exception:
        return None
    finally:
        shutil.rmtree(d, ignore_errors=True)


def after_unrelated_session_digest(spec):
    """The same backtest after an UNRELATED session in the same interpreter: same symbols, other prices, both built through
    the session's own default data handler (QSTRADER_CSV_DATA_DIR) - whatever the first one loaded must not reach the
    second."""
    c = json.loads(json.dumps(spec["cfg"]))
    if spec["alpha"] != "config" or c["alpha"] not in ("fixed", "single") or not c["market"]:
        return None
    # (the weights as the configuration holds them: a hand-built alpha model would keep the session from using its default handler)
    plain = dict((k, v) for k, v in spec.items() if k != "wdiv")
    c["default_dh"] = False
    try:
        ref = digest_outcome(run_world(dict(plain, cfg=json.loads(json.dumps(c))), 12345))[0]       # a handler of its own: the reference
    except Exception:
        return None
    c["default_dh"] = True
    other = json.loads(json.dumps(c))
    other["market"] = dict((a, dict((d, [0 if o == 0 else o + 4000, 0 if cl == 0 else cl + 2000]) for d, (o, cl) in bars.items()))
                           for a, bars in c["market"].items())
    run_world(dict(plain, cfg=other), 777)
    return digest_outcome(run_world(dict(plain, cfg=c), 12345))[0], ref


def recycled_source_answers(spec, rounds=16):
    """Data-source objects are created over two directories in turn (same symbols, same dates, other prices), asked a few
    instants and thrown away at once: the interpreter hands the next object the address of the previous one every so
    often.  What a source answers must depend on ITS files only: returns the list of (round, what differs)."""
    import gc
    c = spec["cfg"]
    if not c["market"]:
        return None
    from qstrader.asset.equity import Equity
    from qstrader.data.daily_bar_csv import CSVDailyBarDataSource
    other = dict((a, dict((d, [0 if o == 0 else o + 4000, 0 if cl == 0 else cl + 2000]) for d, (o, cl) in bars.items()))
                 for a, bars in c["market"].items())
    dirs = [tempfile.mkdtemp(prefix="qsv-recy-"), tempfile.mkdtemp(prefix="qsv-recy-")]
    try:
        sr.write_market(dirs[0], c["market"], random.Random(5))
        sr.write_market(dirs[1], other, random.Random(6))
        syms = sorted(c["market"])
        days = sorted(set(int(d) for bars in c["market"].values() for d in bars))[:6]
        instants = [ts(d * 1440 + m) for d in days for m in (870, 1260)]

        def answers(k):
            ds = CSVDailyBarDataSource(dirs[k], Equity, csv_symbols=syms)
            out = []
            for a in syms:
                for t in instants:
                    out.append((repr(float(ds.get_bid(t, "EQ:" + a))), repr(float(ds.get_ask(t, "EQ:" + a)))))
            del ds
            gc.collect()
            return out
        ref = [answers(0), answers(1)]
        bad = []
        for r in range(rounds):
            k = (r + 1) % 2
            if answers(k) != ref[k]:
                bad.append(r)
        return bad
    except Exception:
        return None
    finally:
        for d in dirs:
            shutil.rmtree(d, ignore_errors=True)


def shared_alpha_digests(spec):
    """The same backtest twice with ONE FixedSignalsAlphaModel object handed to both sessions, and in between the
    object's forecast is put through both optimisers the way a hand-assembled PortfolioConstructionModel would
    (`optimiser(dt, initial_weights=alpha_model(dt))`): sharing strategy objects between runs must not change results."""
    c = spec["cfg"]
    if spec["alpha"] != "config" or c["alpha"] != "fixed" or not c["weights"]:
        return None
    try:
        from qstrader.alpha_model.fixed_signals import FixedSignalsAlphaModel
        from qstrader.portcon.optimiser.equal_weight import EqualWeightPortfolioOptimiser
        from qstrader.portcon.optimiser.fixed_weight import FixedWeightPortfolioOptimiser
        div = float(spec.get("wdiv") or 1)
        shared = FixedSignalsAlphaModel(dict((sr.SYM[a], v / div) for a, v in c["weights"].items()))
        factory = lambda signals, universe, dh: shared
        first = digest_outcome(sr.run_real(c, random.Random(12345), alpha_factory=factory))[0]
        dt = ts(c["start"])
        FixedWeightPortfolioOptimiser()(dt, initial_weights=shared(dt))
        EqualWeightPortfolioOptimiser(scale=1.0)(dt, initial_weights=shared(dt))
        second = digest_outcome(sr.run_real(c, random.Random(12345), alpha_factory=factory))[0]
        return first, second
    except Exception:
        return None


def two_source_digests(spec, runs=6):
    """The handler is given TWO data sources that both know every symbol but disagree on every price: a primary one
    (the configuration's market) in front of a fallback.  Each run builds both source objects afresh; all runs must give
    one and the same result (which source answers must not depend on where the objects happen to live in memory)."""
    c = spec["cfg"]
    d1 = tempfile.mkdtemp(prefix="qsv-src1-")
    d2 = tempfile.mkdtemp(prefix="qsv-src2-")
    try:
        sr.write_market(d1, c["market"], random.Random(5))
        other = dict((a, dict((d, [0 if o == 0 else o + 4000, 0 if cl == 0 else cl + 2000]) for d, (o, cl) in bars.items()))
                     for a, bars in c["market"].items())
        sr.write_market(d2, other, random.Random(6))
        from qstrader.asset.equity import Equity
        from qstrader.data.daily_bar_csv import CSVDailyBarDataSource
        syms = sorted(c["market"])
        digests = []
        keep = []
        for k in range(runs):
            keep.append([bytearray(64 * (k + 1)) for _ in range(k)])          # perturb the allocator between runs
            srcs = [CSVDailyBarDataSource(d1, Equity, csv_symbols=syms), CSVDailyBarDataSource(d2, Equity, csv_symbols=syms)]
            kw = {}
            if spec["alpha"] != "config":
                kw["signals_factory"] = signals_factory(spec["alpha"], spec["lookback"])
                kw["alpha_factory"] = alpha_factory(spec["alpha"], spec["lookback"], spec["topn"])
            digests.append(digest_outcome(_run_with_sources(c, d1, srcs, **kw))[0])
        return digests
    except Exception:
        return None
    finally:
        shutil.rmtree(d1, ignore_errors=True)
        shutil.rmtree(d2, ignore_errors=True)


def _run_with_sources(c, csv_dir, sources, signals_factory=None, alpha_factory=None, data_handler=None):
    out = sr.Outcome()
    ob = sr.Observer()
    with ob.installed():
        sess = sr.build_session(c, csv_dir, signals_factory, alpha_factory, data_sources=sources, data_handler=data_handler)
        sess.qts.portfolio_construction_model = sr._PcmProxy(sess.qts.portfolio_construction_model, out)
        sess.sim_engine = sr.EventClock(sess.sim_engine)
        try:
            with sr.quiet(c):
                sess.run(results=False)
        except Exception as e:
            out.failure = (type(e).__name__, minutes(sess.sim_engine.last if sess.sim_engine.last is not None else sess.broker.current_dt))
        _m, fills = ob.take()
    out.curve = [(minutes(t), sr.fx(v)) for t, v in sess.equity_curve]
    out.fills = [(minutes(f["t"]), f["asset"], int(f["qty"]), sr.fx(f["px"]), sr.fx(f["comm"])) for f in fills]
    return out
