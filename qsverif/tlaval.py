"""Parser for the textual values TLC prints (states in simulate files, dot dumps,
counterexamples, PrintT output).

TLA+ value      -> Python value
  123, -4       -> int
  "abc"         -> str
  TRUE/FALSE    -> bool
  <<a, b>>      -> list
  {a, b}        -> frozenset (elements must be hashable; lists/dicts are frozen)
  [f |-> v]     -> dict (record)
  (k :> v @@ …) -> dict (function); a function with domain 1..n is returned as a list
  ident         -> ModelValue(str)

Frozen forms (used only inside sets): list -> tuple, dict -> FrozenDict.
"""


class ModelValue(str):
    def __repr__(self):
        return "MV(%s)" % str.__repr__(self)


class FrozenDict(dict):
    def __hash__(self):
        return hash(tuple(sorted(((repr(k), _freeze(v)) for k, v in self.items()), key=repr)))


def _freeze(v):
    if isinstance(v, list):
        return tuple(_freeze(x) for x in v)
    if isinstance(v, dict):
        return FrozenDict((k, _freeze(x)) for k, x in v.items())
    return v


class ParseError(Exception):
    pass


class _P(object):
    def __init__(self, s):
        self.s = s
        self.i = 0
        self.n = len(s)

    def ws(self):
        s, n = self.s, self.n
        i = self.i
        while i < n and s[i] in " \t\r\n":
            i += 1
        self.i = i

    def peek(self, k=1):
        return self.s[self.i:self.i + k]

    def expect(self, tok):
        self.ws()
        if not self.s.startswith(tok, self.i):
            raise ParseError("expected %r at %d: %r" % (tok, self.i, self.s[self.i:self.i + 40]))
        self.i += len(tok)

    def value(self):
        self.ws()
        s = self.s
        c = s[self.i] if self.i < self.n else ""
        if c == '"':
            return self.string()
        if c == "<" and self.peek(2) == "<<":
            self.i += 2
            out = []
            self.ws()
            if self.peek(2) == ">>":
                self.i += 2
                return out
            while True:
                out.append(self.value())
                self.ws()
                if self.peek(2) == ">>":
                    self.i += 2
                    return out
                self.expect(",")
        if c == "{":
            self.i += 1
            out = []
            self.ws()
            if self.peek() == "}":
                self.i += 1
                return frozenset()
            while True:
                out.append(_freeze(self.value()))
                self.ws()
                if self.peek() == "}":
                    self.i += 1
                    return frozenset(out)
                self.expect(",")
        if c == "[":
            self.i += 1
            out = {}
            self.ws()
            if self.peek() == "]":
                self.i += 1
                return out
            while True:
                self.ws()
                k = self.ident()
                self.expect("|->")
                out[k] = self.value()
                self.ws()
                if self.peek() == "]":
                    self.i += 1
                    return out
                self.expect(",")
        if c == "(":
            self.i += 1
            out = {}
            while True:
                k = _freeze(self.value())
                self.expect(":>")
                out[k] = self.value()
                self.ws()
                if self.peek() == ")":
                    self.i += 1
                    break
                self.expect("@@")
            return _fn_to_seq(out)
        if c == "-" or c.isdigit():
            j = self.i + 1
            while j < self.n and s[j].isdigit():
                j += 1
            v = int(s[self.i:j])
            self.i = j
            # a bare `k :> v` (single-point function printed without parentheses)
            return self._maybe_single_fn(v)
        if c.isalpha() or c == "_":
            k = self.ident()
            if k == "TRUE":
                return True
            if k == "FALSE":
                return False
            return self._maybe_single_fn(ModelValue(k))
        raise ParseError("unexpected %r at %d: %r" % (c, self.i, s[self.i:self.i + 40]))

    def _maybe_single_fn(self, v):
        return v

    def ident(self):
        self.ws()
        j = self.i
        s = self.s
        while j < self.n and (s[j].isalnum() or s[j] == "_"):
            j += 1
        if j == self.i:
            raise ParseError("identifier expected at %d: %r" % (self.i, s[self.i:self.i + 40]))
        k = s[self.i:j]
        self.i = j
        return k

    def string(self):
        s = self.s
        assert s[self.i] == '"'
        j = self.i + 1
        out = []
        while s[j] != '"':
            if s[j] == "\\":
                j += 1
                out.append({"n": "\n", "t": "\t"}.get(s[j], s[j]))
            else:
                out.append(s[j])
            j += 1
        self.i = j + 1
        return "".join(out)


def _fn_to_seq(d):
    n = len(d)
    if n and all(isinstance(k, int) and not isinstance(k, bool) for k in d) and set(d) == set(range(1, n + 1)):
        return [d[i] for i in range(1, n + 1)]
    return d


def parse_value(text):
    p = _P(text)
    v = p.top_value()
    p.ws()
    if p.i != p.n:
        raise ParseError("trailing text at %d: %r" % (p.i, text[p.i:p.i + 40]))
    return v


def _top_value(self):
    """value possibly of the unparenthesised form  k :> v @@ k :> v"""
    v = self.value()
    self.ws()
    if self.peek(2) == ":>":
        out = {}
        k = v
        while True:
            self.expect(":>")
            out[_freeze(k)] = self.value()
            self.ws()
            if self.peek(2) == "@@":
                self.i += 2
                k = self.value()
            else:
                break
        return _fn_to_seq(out)
    return v


_P.top_value = _top_value


def parse_state(text):
    """Parse a TLC state printed as  /\\ v1 = val\\n/\\ v2 = val ...  into {var: value}."""
    p = _P(text)
    out = {}
    while True:
        p.ws()
        if p.i >= p.n:
            break
        p.expect("/\\")
        k = p.ident()
        p.expect("=")
        out[k] = p.top_value()
    return out


def to_tla(v):
    """Python value -> TLA+ expression text (inverse of parse_value for the types we use)."""
    if isinstance(v, bool):
        return "TRUE" if v else "FALSE"
    if isinstance(v, ModelValue):
        return str(v)
    if isinstance(v, int):
        return str(v)
    if isinstance(v, str):
        return '"%s"' % v.replace("\\", "\\\\").replace('"', '\\"')
    if isinstance(v, (list, tuple)):
        return "<<" + ", ".join(to_tla(x) for x in v) + ">>"
    if isinstance(v, (set, frozenset)):
        return "{" + ", ".join(sorted(to_tla(x) for x in v)) + "}"
    if isinstance(v, dict):
        if not v:
            return "<<>>"
        if all(isinstance(k, str) and not isinstance(k, ModelValue) and k.isidentifier() for k in v):
            return "[" + ", ".join("%s |-> %s" % (k, to_tla(x)) for k, x in v.items()) + "]"
        return "(" + " @@ ".join("%s :> %s" % (to_tla(k), to_tla(x)) for k, x in v.items()) + ")"
    raise TypeError("cannot render %r" % (v,))


def parse_prefix(text, pos=0):
    """Parse one value starting at text[pos]; returns (value, end position)."""
    p = _P(text)
    p.i = pos
    v = p.top_value()
    return v, p.i


def extract_tagged(out, tag):
    """All tuples  << "tag", ... >>  that PrintT wrote into TLC's output (possibly pretty-printed
    over several lines)."""
    import re
    res = []
    for m in re.finditer(r'<<\s*"%s"' % re.escape(tag), out):
        try:
            v, _ = parse_prefix(out, m.start())
        except ParseError:
            continue
        res.append(v)
    return res
