"""Signals engine: decides C16 (unit level: windows, definitions, warm-up, independence, late
entry; the per-business-day cadence inside a backtest is added by the Session engine).

Design level: TLC explores specs/Signals.tla (all price streams up to MaxTicks ticks over a small
price set, one asset entering late) and checks C16_Windows / C16_Definitions / C16_Cadence /
C16_Independent.  Conformance: TLC -simulate behaviours (3 assets, longer streams, several entry
maps) are stepped through the REAL MomentumSignal / SMASignal / VolatilitySignal objects inside a
real SignalsCollection over a real DynamicUniverse; after every update the deque contents and the
three signal values are compared with TLC's state.
"""
import glob
import math
import os
import random
import shutil
from fractions import Fraction

from . import tlc
from .broker_conf import asdict
from .broker_rig import ts
from .common import Report, seed, tier

ENTRY_MAPS = {
    "MCEntryA": dict(A=0, B=3, C=3),
    "MCEntryB": dict(A=0, B=0, C=2),
    "MCEntryC": dict(A=1, B=5, C=-1),
}
DAY0 = 18267   # Monday 2020-01-06


def mc_module():
    defs = []
    for name, m in ENTRY_MAPS.items():
        body = " ELSE ".join('IF a = "%s" THEN %d' % (a, e) for a, e in m.items()) + " ELSE -1"
        defs.append("%s == [a \\in Assets |-> %s]" % (name, body))
    defs.append('MCOrder == SelectSeq(<< "A", "B", "C" >>, LAMBDA a : a \\in Assets)')
    return "---- MODULE MC_Signals ----\nEXTENDS Signals, TLC\n%s\n====\n" % "\n".join(defs)


def cfg(assets, lookbacks, prices, entry, maxticks, check=True):
    s = "SPECIFICATION Spec\nCONSTANTS\n  Assets = {%s}\n  Lookbacks = {%s}\n  Prices = {%s}\n  EntryAt <- %s\n  MaxTicks = %d\n  AssetOrder <- MCOrder\n  HashOrder = FALSE\nCHECK_DEADLOCK FALSE\n" % (
        ", ".join('"%s"' % a for a in assets), ", ".join(str(x) for x in lookbacks), ", ".join(str(x) for x in prices), entry, maxticks)
    if check:
        s += "INVARIANT C16_Windows\nINVARIANT C16_Definitions\nINVARIANT C16_Cadence\nPROPERTY C16_Independent\n"
    return s


def bday(k):
    """k-th business day (1-based) counted from Monday DAY0."""
    d = DAY0
    n = 1
    while n < k:
        d += 1
        if (d + 3) % 7 <= 4:
            n += 1
    return d


def fget(f, k):
    """TLC prints a function with domain 1..n as a sequence."""
    return f[k - 1] if isinstance(f, list) else f[k]


class _Handler(object):
    def __init__(self):
        self.px = {}

    def get_asset_latest_mid_price(self, dt, asset):
        return self.px[asset]


# how the model's assets are spelt on the real side: plain, or symbols that are prefixes of one another (buffers are
# keyed by '<symbol>_<lookback>' strings)
NAME_SCHEMES = [dict(A="A", B="B", C="C"), dict(A="EQ:GO", B="EQ:GOOG", C="EQ:GOOGL"), dict(A="X1", B="X10", C="X100"),
                dict(A="EQ:AB", B="EQ:A", C="EQ:ABC")]


class _Scaled(object):
    """the same handler with every price shifted (what the shadow signals are fed)"""
    def __init__(self, dh, k):
        self.dh, self.k = dh, k

    def get_asset_latest_mid_price(self, dt, asset):
        return self.dh.get_asset_latest_mid_price(dt, asset) + self.k        # a shift: changes every ratio, return and mean


def replay(states, entry, lookbacks, rng):
    """Step one TLC behaviour through real signal objects.  Returns (n_updates, mismatches)."""
    nm = rng.choice(NAME_SCHEMES)
    back = dict((v, k) for k, v in nm.items())
    from qstrader.asset.universe.dynamic import DynamicUniverse
    from qstrader.signals.momentum import MomentumSignal
    from qstrader.signals.sma import SMASignal
    from qstrader.signals.vol import VolatilitySignal
    from qstrader.signals.signals_collection import SignalsCollection
    start = ts(DAY0 * 1440)
    dates = {}
    for a, e in entry.items():
        if e == -1:
            dates[a] = None
        elif e == 0:
            dates[a] = rng.choice([start, start - __import__("pandas").Timedelta(days=3)])
        else:
            # first update at which the asset belongs: exactly that close (inclusive), or just after the previous one
            dates[a] = rng.choice([ts(bday(e) * 1440 + 1260), ts(bday(e - 1) * 1440 + 1261) if e > 1 else ts(DAY0 * 1440 + 1)])
    uni = DynamicUniverse(dict((nm[a], d) for a, d in dates.items()))
    lbs = sorted(lookbacks)
    # one collection, three signals: over the same universe, or each over its own part of it (a signal must only ever
    # see the assets of ITS universe)
    members = dict(mom=set(dates), sma=set(dates), vol=set(dates))
    if rng.random() < 0.5 and len(dates) >= 2:
        names_ = sorted(dates)
        members["sma"] = set(rng.sample(names_, len(names_) - 1))
        members["vol"] = set(rng.sample(names_, 1))
    sub = lambda kind: uni if members[kind] == set(dates) else DynamicUniverse(dict((nm[a], d) for a, d in dates.items() if a in members[kind]))
    sigs = {"mom": MomentumSignal(start, sub("mom"), list(lbs)), "sma": SMASignal(start, sub("sma"), list(lbs)),
            "vol": VolatilitySignal(start, sub("vol"), list(lbs))}
    dh = _Handler()
    coll = SignalsCollection(sigs, dh)
    # a second, independent set of signal objects over the same assets and lookbacks that is fed OTHER prices and queried
    # in between: signal objects must not influence one another
    shadow = {"mom": MomentumSignal(start, uni, list(lbs)), "sma": SMASignal(start, uni, list(lbs)), "vol": VolatilitySignal(start, uni, list(lbs))}
    shadow_coll = SignalsCollection(shadow, _Scaled(dh, 3.0))
    out = []
    n = 0
    for k, S in enumerate(states):
        if k > 0:
            stream = asdict(S["stream"])
            for a in entry:
                dh.px[nm[a]] = float(stream[a][-1]) if a in stream else float("nan")
            coll.update(ts(bday(S["tick"]) * 1440 + 1260))
            shadow_coll.update(ts(bday(S["tick"]) * 1440 + 1260))
            for sh in shadow.values():
                for a_ in list(sh.assets):
                    for nlb_ in lbs:
                        try:
                            sh(a_, nlb_)
                        except Exception:
                            pass
            n += 1
        win, sig = asdict(S["win"]), asdict(S["sig"])
        tracked_all = set(S["tracked"])
        for kind, sobj in sigs.items():
            tracked = tracked_all & members[kind]
            if set(back.get(x, x) for x in sobj.assets) != tracked or len(sobj.assets) != len(tracked):
                out.append((k, "tracked", "%s tracks %s, expected %s" % (kind, sobj.assets, sorted(tracked))))
            for a in tracked:
                for nlb in lbs:
                    cap = nlb if kind == "sma" else nlb + 1
                    # (the window the specification holds is used for the message only: how an implementation stores its
                    # observations is its own business - what C16 states is the VALUE of each signal)
                    exp_w = [float(x) for x in fget(asdict(win[a])[kind], nlb)] if a in win else []
                    if not exp_w:
                        continue           # nothing supplied yet: the moving average is undefined
                    r = fget(asdict(sig[a])[kind], nlb)
                    try:
                        got = float(sobj(nm[a], nlb))
                    except Exception as e:
                        out.append((k, "value", "%s(%s, %d) raised %s" % (kind, a, nlb, type(e).__name__)))
                        continue
                    exact = Fraction(r[0], r[1])
                    exp = math.sqrt(exact) if kind == "vol" else float(exact)
                    if abs(got - exp) > 1e-9 * max(1.0, abs(exp)):
                        out.append((k, "value", "%s(%s, %d) = %r, expected %r over window %s" % (kind, a, nlb, got, exp, exp_w)))
        if coll.warmup != S["tick"]:
            out.append((k, "warmup", "warmup counter %s, expected %s" % (coll.warmup, S["tick"])))
        if out:
            break
    return n, out


def _cadence_job(job):
    c, sd = job
    import sys
    from .common import REPO
    if REPO not in sys.path:
        sys.path.insert(0, REPO)
    from . import session_rig as sr
    from .engine_twin import signals_factory
    log = {}

    def recording_factory(start, universe, dh):
        """The three signal classes with `append` (the documented way a signal is fed) recorded: what each signal RECEIVES
        is observed without looking at how it stores it."""
        from qstrader.signals.momentum import MomentumSignal
        from qstrader.signals.signals_collection import SignalsCollection
        from qstrader.signals.sma import SMASignal
        from qstrader.signals.vol import VolatilitySignal

        def rec(cls, name):
            class Recording(cls):
                def append(self, asset, price):
                    log.setdefault(name, {}).setdefault(asset, []).append(float(price))
                    return super(Recording, self).append(asset, price)
            return Recording
        sig = {"momentum": rec(MomentumSignal, "momentum")(start, universe, lookbacks=[40]),
               "sma": rec(SMASignal, "sma")(start, universe, lookbacks=[2, 42]),
               "vol": rec(VolatilitySignal, "vol")(start, universe, lookbacks=[41])}
        return SignalsCollection(sig, dh)
    out = sr.run_real(c, random.Random(sd), signals_factory=recording_factory, keep_session=True)
    sess = out.extra.pop("session", None)
    res = dict(failure=out.failure, windows={})
    if sess is not None and sess.signals is not None:
        for name in ("momentum", "sma", "vol"):
            res["windows"][name] = dict(fed=log.get(name, {}))
        res["warmup"] = sess.signals.warmup
    return res


def session_cadence(rep, w, rng, n, sd):
    """C16 inside a backtest: every signal receives exactly one observation per asset per business day - that
    day's close - and an asset entering a dynamic universe later starts empty.  The Session model says which
    closes each asset must have been fed (MC_Session prints them); the real session's signal buffers (lookback
    longer than the run, so nothing has been dropped) must hold exactly those."""
    import multiprocessing
    from . import engine_session as es
    from . import session_rig as sr
    cfgs = [sr.gen_config(rng, alpha_kinds=("single", "single", "fixed"), allow_fail=False) for _ in range(n)]
    # plus signal-DRIVEN sessions (the repository's top-N momentum alpha model), where the Session model itself
    # carries the momentum windows: compared below through the allocations they produce
    topn_cfgs = [sr.gen_config(rng, alpha_kinds=("topn",), allow_fail=False) for _ in range(n)]
    try:
        texps = es.tlc_outcomes(w, topn_cfgs, rep, "MC_Session(top-N momentum)")
        with multiprocessing.Pool(16) as pool:
            touts = pool.map(es._real_job, [(c, sd * 19 + i) for i, c in enumerate(topn_cfgs)], chunksize=2)
        ntop = 0
        for c, exp, out in zip(topn_cfgs, texps, touts):
            if exp is None:
                continue
            ntop += 1
            for kind, detail in es.compare(c, exp, out):
                if kind in ("alloc-weights", "alloc-keys"):
                    # which assets the momentum ranking selects: signal values, warm-up and tracking order at work.
                    # (Recorded as a warning: no listed property states the top-N rule itself.)
                    rep.warnings.append("MODEL:topn-allocation %s; %s" % (detail, es._brief(c)))
        rep.cov["topn_sessions_compared_with_model"] = ntop
    except tlc.TLCError as e:
        rep.machinery.append(str(e)[-1500:])
    try:
        exps = es.tlc_outcomes(w, cfgs, rep, "MC_Session(cadence)")
    except tlc.TLCError as e:
        rep.machinery.append(str(e)[-1500:])
        return 0, 0
    with multiprocessing.Pool(16) as pool:
        outs = pool.map(_cadence_job, [(c, sd * 17 + i) for i, c in enumerate(cfgs)], chunksize=2)
    nobs = 0
    caps = {"momentum": 41, "sma": 2, "vol": 42}
    for c, exp, got in zip(cfgs, exps, outs):
        if exp is None:
            continue
        feeds = exp[8]
        nclose = len([1 for t, _q in (max(feeds, key=len) if feeds else [])])
        for n_, a in enumerate(sr.ASSETS, 1):
            stream = [float("nan") if q == 0 else q / 1000.0 for _t, q in feeds[n_ - 1]]
            nobs += len(stream)
            for name, cap in caps.items():
                wdw = got["windows"].get(name)
                if wdw is None:
                    continue
                have = wdw["fed"].get("EQ:%s" % a, [])
                want = stream
                if not _same_floats(have, want):
                    when = "late-entrant" if c["entry"].get(a, -1) > c["start"] else "member-from-start"
                    rep.violation("signals|session-cadence|" + when,
                                  "during the backtest the %s signal was fed %s for %s, but the closes it must receive (one per business day "
                                  "since it entered) are %s; configuration %s" % (name, have, a, want, es._brief(c)), dict(config=c, asset=a, signal=name))
                    break
    return len(cfgs), nobs


def _same_floats(a, b):
    if len(a) != len(b):
        return False
    for x, y in zip(a, b):
        if x != x and y != y:
            continue
        if x != y:
            return False
    return True


def run(prop, replay_file=None):
    rep = Report(prop)
    t, sd = tier(), seed()
    rep.assumptions = ["prices positive; momentum and moving average compared with exact rationals at 1e-9, volatility with the "
                       "square root of the exact rational 252 * population variance",
                       "the moving average of an empty window is undefined (not compared)"]
    w = tlc.scratch()
    try:
        tlc.stage_all(w)
        with open(os.path.join(w, "MC_Signals.tla"), "w") as fh:
            fh.write(mc_module())
        # design level
        insts = [("two-assets-late-entry", cfg(["A", "B"], [1, 2, 3], [1, 2, 3, 5], "MCEntryA", 4 if t == "quick" else 5)),
                 ("one-asset-deep", cfg(["A"], [1, 2, 3], [1, 2, 3, 5], "MCEntryA", 7 if t == "quick" else 8))]
        for name, c in insts:
            with open(os.path.join(w, "s.cfg"), "w") as fh:
                fh.write(c)
            try:
                r = tlc.run(w, "MC_Signals", "s.cfg", workers=16, timeout=3000)
                rep.add_mc(r, name)
                if not r.ok:
                    rep.machinery.append("the specification itself violates %s on %s (spec error)" % (r.violated, name))
            except tlc.TLCError as e:
                rep.machinery.append("TLC failed on %s: %s" % (name, str(e)[-1200:]))
        # conformance
        rng = random.Random(sd)
        nbeh = nup = 0
        distinct = set()
        per_worker = 4 if t == "quick" else 150
        for k, (ename, emap) in enumerate(sorted(ENTRY_MAPS.items())):
            simdir = os.path.join(w, "sim%d" % k)
            os.mkdir(simdir)
            with open(os.path.join(w, "sim.cfg"), "w") as fh:
                fh.write(cfg(["A", "B", "C"], [1, 2, 3], [1, 2, 3, 5, 8], ename, 9, check=False))
            try:
                r = tlc.run(w, "MC_Signals", "sim.cfg", workers=16, simulate="file=%s/tr,num=%d" % (simdir, per_worker), depth=10,
                            seed=sd * 13 + k + 1, deadlock_off=True, timeout=1800)
            except tlc.TLCError as e:
                rep.machinery.append("TLC simulation failed: %s" % str(e)[-1200:])
                continue
            rep.cov["transitions"] += r.generated
            for f in sorted(glob.glob(simdir + "/tr_*")):
                states = [st for _n, _a, st in tlc.parse_sim_file(f)]
                n, mism = replay(states, emap, [1, 2, 3], rng)
                nbeh += 1
                nup += n
                streams = asdict(states[-1]["stream"])
                if any(len(v) >= 4 for v in streams.values()):
                    distinct.add(repr(sorted((a, tuple(v)) for a, v in streams.items())) + ename)
                for step, what, detail in mism:
                    rep.violation("signals|" + what, "%s at update %d (entry map %s): %s" % (what, step, emap, detail),
                                  dict(entry=emap, streams=dict((a, list(v)) for a, v in asdict(states[min(step, len(states) - 1)]["stream"]).items()),
                                       detail=detail))
                if nbeh <= 2:
                    rep.sample(dict(entry_ticks=emap, supplied_streams=dict((a, list(v)) for a, v in streams.items()),
                                    final_signals=states[-1]["sig"]))
            shutil.rmtree(simdir, ignore_errors=True)
        # in-backtest cadence: real sessions with real signal objects, against the Session model
        nsess, nobs = session_cadence(rep, w, rng, 60 if t == "quick" else 2500, sd)
        nup += nobs
        nbeh += nsess
        rep.cov["sessions_with_signals"] = nsess
        rep.cov["evaluations"] = nup
        rep.cov["traces_validated_against_impl"] = nbeh
        rep.cov["distinct_nontrivial"] = len(distinct)
        rep.cov["rule"] = ("TLC -simulate behaviours of Signals (3 assets, lookbacks 1-3, prices {1,2,3,5,8}, up to 9 updates, three "
                           "entry maps) replayed into real signal objects; non-trivial = some asset received at least 4 observations "
                           "(every window has wrapped); distinct by supplied streams and entry map")
        rep.cov["exhaustive"] = False
    finally:
        shutil.rmtree(w, ignore_errors=True)
    return rep
