"""Stats engine: decides C17.

TLC evaluates specs/Stats.tla on equity curves supplied by the harness, checks on each that the
operational high-water-mark loop equals the declarative drawdown, that cumulative returns are the
ratio to the first point, that weekly/monthly/yearly aggregates compound to the total return and
that everything is scale invariant, and exports the exact rationals.  The harness calls the real
create_drawdowns / aggregate_returns / create_cagr / create_sharpe_ratio / create_sortino_ratio,
JSONStatistics (incl. to_file round trip) and TearsheetStatistics.get_results on the same curves.
"""
import itertools
import json
import math
import os
import random
import shutil
import tempfile
import warnings
from fractions import Fraction

from . import tlc
from .broker_rig import ts
from .common import Report, seed, tier
from .engine_clock import parse_results

STARTS = [18624, 18260, 18318, 18774, 18263, 19780]   # 2020-12-28, 2019-12-30, 2020-02-26, 2021-05-27, 2020-01-02, 2024-02-27
REL = 1e-9


def gen_cases(t, sd):
    rng = random.Random(sd * 101 + 17)
    cases = []
    vals = [1, 2, 3, 4]
    if t == "thorough":
        for n in range(2, 7):
            for x in itertools.product(vals, repeat=n):
                cases.append((rng.choice(STARTS), list(x)))
        for _ in range(3000):
            cases.append((rng.choice(STARTS), [rng.choice(vals) for _ in range(7)]))
    else:
        special = [[3, 1, 3], [4, 3, 2, 3], [1, 2, 3, 4], [4, 3, 2, 1], [2, 2, 2, 2], [4, 4, 1, 4, 4], [10, 9, 8], [1, 1, 2, 1, 1]]
        for x in special:
            cases.append((rng.choice(STARTS), x))
        for n in range(2, 5):
            for x in itertools.product(vals, repeat=n):
                if rng.random() < 0.6:
                    cases.append((rng.choice(STARTS), list(x)))
        for _ in range(700):
            cases.append((rng.choice(STARTS), [rng.choice(vals) for _ in range(rng.randint(5, 7))]))
    # pairs of curves with the SAME first date, last date and length but another interior date (a holiday on the k-th
    # business day): whatever is derived from the dates must be derived from all of them
    for _ in range(30 if t == "quick" else 300):
        st = rng.choice(STARTS)
        n = rng.randint(6, 11)
        x = [rng.choice([8, 10, 12, 16]) for _ in range(n)]
        k1, k2 = rng.sample(range(2, n), 2)
        cases.append((st, list(x), k1))
        cases.append((st, list(x), k2))
    # longer curves over a wider but still small range (month / year crossings guaranteed)
    for _ in range(150 if t == "quick" else 1500):
        n = rng.randint(8, 12)
        cases.append((rng.choice(STARTS), [rng.choice([8, 10, 12, 16]) for _ in range(n)]))
    return cases


def gen_long_cases(rng, n):
    out = []
    for k in range(n):
        m = rng.randint(260, 420)
        x = [rng.choice([8, 10, 12]) for _ in range(m)]
        if k % 2 == 0:
            x[rng.randint(0, 5)] = 16                  # an early peak, never regained for more than a trading year ...
            if k % 4 == 0:
                x[-rng.randint(1, 3)] = 16             # ... or regained only at the very end
        else:
            for _ in range(rng.randint(1, 4)):
                x[rng.randrange(m)] = 16
        out.append((rng.choice(STARTS), x))
    return out


def confront_long(case, res):
    """res = [max drawdown, duration, last drawdown, last cumulative return] from TLC."""
    import warnings
    import numpy as np
    import pandas as pd
    from qstrader.statistics import performance as perf
    from qstrader.statistics.json_statistics import JSONStatistics
    from qstrader.statistics.tearsheet import TearsheetStatistics
    start, x = case
    maxdd, dur, lastdd, lastcum = res
    days = []
    d = start
    while len(days) < len(x):
        if (d + 3) % 7 <= 4:
            days.append(d)
        d += 1
    idx = pd.to_datetime(pd.Index(pd.DatetimeIndex([ts(dd * 1440).tz_localize(None) for dd in days]).date))
    df = pd.DataFrame({"Equity": [float(v) for v in x]}, index=idx)
    out = []
    with warnings.catch_warnings():
        warnings.simplefilter("ignore")
        rets = df["Equity"].pct_change().fillna(0.0)
        cum = np.exp(np.log(1 + rets).cumsum())
        dd_s, dd_max, dd_dur = perf.create_drawdowns(cum)
        if not close(float(dd_max), fr(maxdd)):
            out.append(("max_drawdown", "max drawdown %r, expected %s" % (float(dd_max), fr(maxdd))))
        if not close(float(dd_s.iloc[-1]), fr(lastdd)):
            out.append(("drawdown", "last drawdown %r, expected %s" % (float(dd_s.iloc[-1]), fr(lastdd))))
        if not any(0 < abs(float(v)) < 1e-9 for v in dd_s) and int(dd_dur) != dur:
            out.append(("duration", "duration %s, expected %s" % (dd_dur, dur)))
        if not close(float(cum.iloc[-1]), fr(lastcum)):
            out.append(("cum_returns", "last cumulative return %r, expected %s" % (float(cum.iloc[-1]), fr(lastcum))))
        tear = TearsheetStatistics(df.copy()).get_results(df.copy())
        alloc = pd.DataFrame({"A": [0.5] * len(x)}, index=df.index)
        js = JSONStatistics(df.copy(), alloc).statistics["strategy"]
        for name, rep_ in (("tearsheet", tear), ("JSON", js)):
            if not close(float(rep_["max_drawdown"]), fr(maxdd)):
                out.append(("max_drawdown", "%s max drawdown %r, expected %s" % (name, float(rep_["max_drawdown"]), fr(maxdd))))
    return out


def cases_module(cases):
    body = ",\n".join(("<< %d, << %s >> >>" % (c[0], ", ".join(str(v) for v in c[1]))) if len(c) < 3 or not c[2] else
                      ("<< %d, << %s >>, %d >>" % (c[0], ", ".join(str(v) for v in c[1]), c[2])) for c in cases)
    return "---- MODULE StatsCases ----\nEXTENDS Integers\nCases == <<\n%s\n>>\n====\n" % body


def fr(r):
    return Fraction(r[0], r[1])


def close(got, exact):
    e = float(exact)
    return got == got and abs(got - e) <= REL * max(1.0, abs(e))


def ieee_ratio(periods, mean, var):
    """sqrt(periods) * mean / sqrt(var) with IEEE semantics; var None = std of an empty selection (NaN)."""
    if var is None:
        return float("nan")
    m, s = float(mean), math.sqrt(float(var))
    if s == 0.0:
        if m == 0.0:
            return float("nan")
        return math.copysign(float("inf"), m)
    return math.sqrt(periods) * m / s


def same_ratio(got, exp, var, mean=None):
    """got against the IEEE value of the definition.  Where the deviation is EXACTLY zero in exact arithmetic the
    floating-point deviation of three or more equal returns may come out as 1e-17 instead of 0: then 0/0 is noise
    over noise (anything goes) and x/0 may be a huge finite number of the right sign."""
    if var is not None and var == 0:
        if mean is not None and mean == 0:
            return True
        return got != got or math.isinf(got) or abs(got) > 1e6
    if exp != exp:
        return got != got
    if math.isinf(exp):
        return math.isinf(got) and (got > 0) == (exp > 0)
    return got == got and abs(got - exp) <= REL * max(1.0, abs(exp))


def confront(case, res, periods, rng):
    """Returns list of (what, detail)."""
    import numpy as np
    import pandas as pd
    from qstrader.statistics import performance as perf
    from qstrader.statistics.json_statistics import JSONStatistics
    from qstrader.statistics.tearsheet import TearsheetStatistics
    start, x = case[0], case[1]
    days, rs, cum, dd, maxdd, dur, wk, mo, yr, mean, var, nneg, negvar = res
    out = []
    idx = pd.DatetimeIndex([ts(d * 1440).tz_localize(None) for d in days]).date
    eq = pd.DataFrame({"Equity": [float(v) for v in x]}, index=pd.Index(idx))
    # the index as a backtest session hands it over (`get_equity_curve()`: plain datetime.date objects) for every other
    # curve, a DatetimeIndex for the rest
    if (start + len(x)) % 2:
        eq.index = pd.to_datetime(eq.index)

    def stats_for(scale):
        df = eq.copy()
        df["Equity"] = df["Equity"] * scale
        alloc = pd.DataFrame({"A": [0.5] * len(x)}, index=df.index)
        fd, fn = tempfile.mkstemp(prefix="qsv-stat-", suffix=".json")
        os.close(fd)
        try:
            js = JSONStatistics(df.copy(), alloc, periods=periods, output_filename=fn)
            js.to_file()
            with open(fn) as fh:
                back = json.load(fh)
        finally:
            os.remove(fn)
        tobj = TearsheetStatistics(df.copy(), periods=periods)
        same_df = df.copy()
        tear = tobj.get_results(same_df)
        # a second call on the same reporter with the very same frame (the first call may have added columns to it),
        # and the JSON statistics read a second time: the numbers must not move
        tear_again = tobj.get_results(same_df)
        again = js.statistics["strategy"]
        first = js.statistics["strategy"]
        if not _same_json(_plain(first), _plain(again)):
            out.append(("reporters", "JSONStatistics.statistics read twice gives different numbers"))
        for k in ("sharpe", "sortino", "cagr", "max_drawdown", "max_drawdown_duration"):
            if k in tear and not _eqnan(float(tear[k]), float(tear_again[k])):
                out.append(("reporters", "TearsheetStatistics.get_results called twice on the same frame: %s %r then %r" % (k, tear[k], tear_again[k])))
        return first, back["strategy"], tear, df

    with warnings.catch_warnings():
        warnings.simplefilter("ignore")
        st, back, tear, df = stats_for(1.0)
        # direct calls on the series the reporters build
        returns = pd.Series([float(fr(r)) for r in rs], index=eq.index)   # exact returns as floats, for the aggregation call
        real_returns = df["Equity"].pct_change().fillna(0.0)
        real_cum = np.exp(np.log(1 + real_returns).cumsum())
        dd_s, dd_max, dd_dur = perf.create_drawdowns(real_cum)
        n = len(x)
        # (a) returns / cumulative returns
        for i in range(n):
            if not close(st["returns"][i][1], fr(rs[i])):
                out.append(("returns", "return[%d] %r, expected %s" % (i, st["returns"][i][1], fr(rs[i]))))
                break
            if not close(st["cum_returns"][i][1], fr(cum[i])):
                out.append(("cum_returns", "cum_return[%d] %r, expected %s" % (i, st["cum_returns"][i][1], fr(cum[i]))))
                break
        # (b) drawdowns = 1 - value / running maximum (first observation included)
        rep_dd = [float(v) for v in dd_s]
        for i in range(n):
            if not close(rep_dd[i], fr(dd[i])):
                out.append(("drawdown", "drawdown[%d] %r, expected %s (curve %s)" % (i, rep_dd[i], fr(dd[i]), x)))
                break
        if not close(float(dd_max), fr(maxdd)):
            out.append(("max_drawdown", "max drawdown %r, expected %s" % (float(dd_max), fr(maxdd))))
        # duration: longest under-water run of the REPORTED series; TLC's exact value where no float noise is involved
        run = best = 0
        for v in rep_dd:
            run = run + 1 if v != 0 else 0
            best = max(best, run)
        if int(dd_dur) != best:
            out.append(("duration", "duration %s, longest non-zero run of the reported series is %s" % (dd_dur, best)))
        if not any(0 < abs(v) < 1e-9 for v in rep_dd) and int(dd_dur) != dur:
            out.append(("duration", "duration %s, expected %s (curve %s)" % (dd_dur, dur, x)))
        # (c) aggregates compound exactly as defined, per group
        for kind, exp in (("weekly", wk), ("monthly", mo), ("yearly", yr)):
            agg = perf.aggregate_returns(real_returns, kind)
            got = {}
            for k, v in agg.items():
                got[tuple(k) if isinstance(k, tuple) else (k,)] = float(v)
            expd = dict((tuple(k), fr(v)) for k, v in exp)
            # the grouping itself is how the code does it, not part of the property: a difference is a
            # MODEL warning; what C17 states is that the aggregates compound to the total return
            if set(got) != set(expd):
                out.append(("MODEL-aggregate-" + kind, "%s groups %s, specification has %s" % (kind, sorted(got), sorted(expd))))
            else:
                for k in expd:
                    if not close(got[k], expd[k]):
                        out.append(("MODEL-aggregate-" + kind, "%s aggregate %s = %r, specification has %s" % (kind, k, got[k], expd[k])))
                        break
            total = 1.0
            for v in got.values():
                total *= 1.0 + v
            if not close(total, Fraction(x[-1], x[0])):
                out.append(("aggregate-" + kind, "%s aggregates compound to %r, total return is %s" % (kind, total, Fraction(x[-1], x[0]))))
        # (c') the same aggregates as the JSON export lists them (plain and in the chart format, percentages): each list
        # compounds to the total return (how many entries a list has is the chart's business)
        total_exact = Fraction(x[-1], x[0])
        months = sorted(set((d_.year, d_.month) for d_ in eq.index))
        years = sorted(set(d_.year for d_ in eq.index))
        for name, unit, count in (("monthly_agg_returns", 1.0, len(months)), ("monthly_agg_returns_hc", 100.0, len(months)),
                                  ("yearly_agg_returns", 1.0, len(years)), ("yearly_agg_returns_hc", 100.0, len(years))):
            vals = [float(v[-1]) if isinstance(v, (list, tuple)) else float(v) for v in st.get(name, [])]
            if name not in st:
                out.append(("aggregate-export", "the export has no %s" % name))
                continue
            tot = 1.0
            for v in vals:
                tot *= 1.0 + v / unit
            if not close(tot, total_exact):
                out.append(("aggregate-export", "%s compounds to %r, total return is %s" % (name, tot, total_exact)))
        # (c'') "the JSON export reports the same numbers": its chart-format lists carry the same aggregates as its plain lists -
        # the same (year, month) cells with the same values (x 100), flat months (return exactly 0.0) included
        try:
            plain_m = dict(((int(k[0]), int(k[1])), float(v)) for k, v in st["monthly_agg_returns"])
            yrs = sorted(set(k[0] for k in plain_m))
            chart_m = dict(((yrs[int(yi)], int(mi) + 1), float(v) / 100.0) for mi, yi, v in st["monthly_agg_returns_hc"])
            if set(chart_m) != set(plain_m):
                out.append(("aggregate-export", "monthly_agg_returns_hc lists the months %s, monthly_agg_returns lists %s" % (
                    sorted(chart_m), sorted(plain_m))))
            elif any(not (abs(chart_m[k] - plain_m[k]) <= 1e-9 * max(1.0, abs(plain_m[k]))) for k in plain_m):
                out.append(("aggregate-export", "monthly_agg_returns_hc %s differs from monthly_agg_returns %s" % (chart_m, plain_m)))
            plain_y = [float(v) for _k, v in st["yearly_agg_returns"]]
            chart_y = [float(v) / 100.0 for v in st["yearly_agg_returns_hc"]]
            if len(plain_y) != len(chart_y) or any(not (abs(a_ - b_) <= 1e-9 * max(1.0, abs(a_))) for a_, b_ in zip(plain_y, chart_y)):
                out.append(("aggregate-export", "yearly_agg_returns_hc %s differs from yearly_agg_returns %s" % (chart_y, plain_y)))
        except (KeyError, TypeError, ValueError, IndexError) as e:
            out.append(("aggregate-export", "the export's aggregate lists cannot be read: %s: %s" % (type(e).__name__, e)))
        # (d) CAGR, Sharpe, Sortino
        exp_cagr = float(fr(cum[-1])) ** (periods / float(n)) - 1.0
        if not (abs(st["cagr"] - exp_cagr) <= 1e-8 * max(1.0, abs(exp_cagr))):
            out.append(("cagr", "CAGR %r, expected %r" % (st["cagr"], exp_cagr)))
        V = fr(var)
        NV = fr(negvar) if nneg > 0 else None
        exp_sh = ieee_ratio(periods, fr(mean), V)
        exp_so = ieee_ratio(periods, fr(mean), NV)
        if not same_ratio(float(st["sharpe"]), exp_sh, V, fr(mean)):
            out.append(("sharpe", "Sharpe %r, expected %r" % (st["sharpe"], exp_sh)))
        if not same_ratio(float(st["sortino"]), exp_so, NV, fr(mean)):
            out.append(("sortino", "Sortino %r, expected %r (negative returns: %d)" % (st["sortino"], exp_so, nneg)))
        for name, f in (("sharpe", perf.create_sharpe_ratio), ("sortino", perf.create_sortino_ratio)):
            direct = float(f(real_returns, periods))
            if not _eqnan(direct, float(st[name])):
                out.append((name, "%s from JSONStatistics %r differs from create_%s_ratio %r" % (name, st[name], name, direct)))
        if not close(float(st["mean_returns"]), fr(mean)) or not close(float(st["stdev_returns"]) ** 2, V):
            out.append(("moments", "mean/stdev %r/%r, expected %s / sqrt(%s)" % (st["mean_returns"], st["stdev_returns"], fr(mean), V)))
        # (e) the two reporters and the exported file tell the same numbers
        if not _eqnan(float(tear["sharpe"]), float(st["sharpe"])) or not _eqnan(float(tear["max_drawdown"]), float(st["max_drawdown"])) \
                or int(tear["max_drawdown_duration"]) != int(st["max_drawdown_duration"]):
            out.append(("reporters", "tearsheet (sharpe %r, maxdd %r, dur %r) vs JSON (%r, %r, %r)" % (
                tear["sharpe"], tear["max_drawdown"], tear["max_drawdown_duration"], st["sharpe"], st["max_drawdown"],
                st["max_drawdown_duration"])))
        if [float(v) for v in tear["drawdowns"]] != [float(v[1]) for v in st["drawdowns"]]:
            out.append(("reporters", "tearsheet and JSON drawdown series differ"))
        if not _same_json(_plain(st), back):
            out.append(("export", "statistics re-read from the exported JSON file differ from the in-memory statistics"))
        if int(st["max_drawdown_duration"]) != int(dd_dur) or not _eqnan(float(st["max_drawdown"]), float(dd_max)):
            out.append(("reporters", "JSONStatistics max drawdown / duration differ from create_drawdowns"))
        # (e') the benchmark block: the same curve passed as `benchmark_curve` of ANOTHER strategy (a different curve
        # of another length) must be given exactly the numbers it gets as a strategy, in memory and in the export
        other = df.iloc[::-1].copy()
        other.index = df.index
        if n > 2:
            other = other.iloc[1:]
        fd, fn = tempfile.mkstemp(prefix="qsv-stat-", suffix=".json")
        os.close(fd)
        try:
            jb = JSONStatistics(other[["Equity"]].copy(), pd.DataFrame({"A": [0.5] * len(other)}, index=other.index), periods=periods,
                                output_filename=fn, benchmark_curve=df[["Equity"]].copy(), benchmark_id="bm", benchmark_name="benchmark")
            jb.to_file()
            with open(fn) as fh:
                bback = json.load(fh)
        finally:
            os.remove(fn)
        bm = jb.statistics.get("benchmark")
        if bm is None:
            out.append(("benchmark", "no benchmark block although a benchmark curve was supplied"))
        else:
            need = ("returns", "cum_returns", "drawdowns", "max_drawdown", "max_drawdown_duration", "cagr", "sharpe", "sortino",
                    "mean_returns", "stdev_returns")
            diff = [k for k in need if k not in bm] + [k for k in bm if k in st and not _same_json(_plain(bm[k]), _plain(st[k]))]
            if diff:
                k0 = diff[0]
                out.append(("benchmark", "as a benchmark the curve is reported %s = %s, as a strategy %s (differing: %s)" % (
                    k0, str(_plain(bm.get(k0)))[:80], str(_plain(st[k0]))[:80], diff)))
            elif not _same_json(_plain(bm), bback.get("benchmark")):
                out.append(("export", "benchmark statistics re-read from the exported JSON file differ from the in-memory ones"))
        # (f) scale invariance
        k = rng.choice([3.0, 0.5, 1000.0])
        st2, _b2, _t2, _d2 = stats_for(k)
        for name in ("cagr", "sharpe", "sortino", "max_drawdown", "mean_returns", "stdev_returns", "annualised_vol"):
            a, b = float(st[name]), float(st2[name])
            if not (_eqnan(a, b) or abs(a - b) <= 1e-9 * max(1.0, abs(a))):
                out.append(("scale", "%s changes from %r to %r when equity is multiplied by %s" % (name, a, b, k)))
        if int(st["max_drawdown_duration"]) != int(st2["max_drawdown_duration"]) and not any(0 < abs(v) < 1e-9 for v in rep_dd):
            out.append(("scale", "drawdown duration changes from %s to %s when equity is multiplied by %s" % (
                st["max_drawdown_duration"], st2["max_drawdown_duration"], k)))
    return out


def _job(job):
    idx, case, res, periods, sd = job
    import sys
    from .common import REPO
    if REPO not in sys.path:
        sys.path.insert(0, REPO)
    from qstrader import settings
    settings.set_print_events(False)
    try:
        return confront(case, res, periods, random.Random(sd * 7 + idx))
    except Exception as e:
        return [("raised", "%s: %s" % (type(e).__name__, e))]


def _eqnan(a, b):
    return (a != a and b != b) or a == b


def _plain(o):
    return json.loads(json.dumps(o))


def _same_json(a, b):
    if isinstance(a, float) and isinstance(b, float):
        return _eqnan(a, b)
    if type(a) != type(b):
        return a == b
    if isinstance(a, dict):
        return set(a) == set(b) and all(_same_json(a[k], b[k]) for k in a)
    if isinstance(a, list):
        return len(a) == len(b) and all(_same_json(x, y) for x, y in zip(a, b))
    return a == b


def run(prop, replay_file=None):
    rep = Report(prop)
    t, sd = tier(), seed()
    rep.assumptions = [
        "floats are compared with the exact rationals at 1e-9 relative; Sharpe/Sortino/CAGR with sqrt/pow applied to the exact rationals "
        "(IEEE semantics for a zero or empty deviation; an exactly-zero deviation of >= 3 equal returns may float to 1e-17)",
        "drawdown duration = longest non-zero run of the REPORTED series (which must itself match the definition at 1e-9); TLC's exact "
        "duration is required where no reported element is a non-zero value below 1e-9 (an exact recovery computed through exp(sum(log)))",
    ]
    rng = random.Random(sd)
    replay_long = None
    if replay_file:
        c = json.load(open(replay_file))["case"]
        cases = [(c[0], c[1])]
        if len(c[1]) > 40:                      # a long curve: only the drawdown part of the specification applies
            replay_long, cases = [(c[0], c[1])], [(18263, [3, 1, 3])]
    else:
        cases = gen_cases(t, sd)
    w = tlc.scratch()
    results = {}
    long_results = {}
    long_cases = []
    try:
        tlc.stage_all(w)
        rng_long = random.Random(sd * 977 + 5)
        def evaluate(lo, hi):
            """TLC on cases[lo:hi]; a chunk in which some curve overflows TLC's 32-bit integers is split until
            the offending curves are isolated - those are skipped (counted in the evidence), never guessed."""
            chunk = cases[lo:hi]
            with open(os.path.join(w, "StatsCases.tla"), "w") as fh:
                fh.write(cases_module(chunk))
            with open(os.path.join(w, "st.cfg"), "w") as fh:
                fh.write("SPECIFICATION Spec\nCONSTANT HWM_SEEDS_FIRST = TRUE\nINVARIANT InvDrawdowns\nINVARIANT InvCum\n"
                         "INVARIANT InvAggregates\nINVARIANT InvScale\nCHECK_DEADLOCK FALSE\n")
            try:
                r = tlc.run(w, "MC_Stats", "st.cfg", workers=16, timeout=3000)
            except tlc.TLCError as e:
                rep.machinery.append("TLC failed: %s" % str(e)[-1500:])
                return
            if r.violated == "evaluation-error" and "Overflow" in r.out:
                if hi - lo == 1:
                    rep.cov["skipped_overflow"] = rep.cov.get("skipped_overflow", 0) + 1
                    rep.warnings.append("curve %s exceeds TLC's 32-bit integers; skipped" % (cases[lo],))
                    return
                mid = (lo + hi) // 2
                evaluate(lo, mid)
                evaluate(mid, hi)
                return
            rep.add_mc(r, "MC_Stats(cases %d..%d)" % (lo, hi))
            if not r.ok:
                rep.machinery.append("the specification itself violates %s (spec error)" % r.violated)
                return
            got = parse_results(r.out)
            if len(got) != len(chunk):
                rep.machinery.append("TLC printed %d results for %d cases" % (len(got), len(chunk)))
                return
            for j in range(len(chunk)):
                results[lo + j] = got[j + 1]

        for k in range(0, len(cases), 2500):
            evaluate(k, min(len(cases), k + 2500))
        # long curves (hundreds of observations on a handful of levels): the running maximum reaches back over the WHOLE
        # history - a peak more than a trading year ago still counts.  TLC evaluates the drawdown part of Stats.tla only.
        long_cases = replay_long if replay_file else gen_long_cases(rng_long, 10 if t == "quick" else 120)
        long_cases = long_cases or []
        with open(os.path.join(w, "StatsCases.tla"), "w") as fh:
            fh.write(cases_module(long_cases))
        with open(os.path.join(w, "sl.cfg"), "w") as fh:
            fh.write("SPECIFICATION Spec\nCONSTANT HWM_SEEDS_FIRST = TRUE\nINVARIANT InvDrawdowns\nINVARIANT InvCum\nCHECK_DEADLOCK FALSE\n")
        try:
            if not long_cases:
                raise StopIteration
            rl = tlc.run(w, "MC_StatsLong", "sl.cfg", workers=8, timeout=3000, stack="768m")
            rep.add_mc(rl, "MC_StatsLong(%d curves of 260-420 observations)" % len(long_cases))
            if not rl.ok:
                rep.machinery.append("Stats.tla violates %s on a long curve (spec error)" % rl.violated)
            else:
                from .engine_clock import parse_tagged
                for v in parse_tagged(rl.out, "L"):
                    long_results[v[0] - 1] = v[1:]
        except StopIteration:
            pass
        except tlc.TLCError as e:
            rep.machinery.append("TLC failed on the long curves: %s" % str(e)[-1200:])
        # spec sensitivity: with the loop as originally written TLC itself must find the defect
        with open(os.path.join(w, "StatsCases.tla"), "w") as fh:
            fh.write(cases_module([(18624, [4, 3, 2, 3])]))
        with open(os.path.join(w, "st.cfg"), "w") as fh:
            fh.write("SPECIFICATION Spec\nCONSTANT HWM_SEEDS_FIRST = FALSE\nINVARIANT InvDrawdowns\nCHECK_DEADLOCK FALSE\n")
        r2 = tlc.run(w, "MC_Stats", "st.cfg", workers=1, timeout=600)
        rep.cov["spec_sensitivity"] = dict(HWM_SEEDS_FIRST=False, tlc_reports=r2.violated)
        if r2.violated is None:
            rep.machinery.append("sensitivity: TLC did not reject the zero-seeded high-water mark")
    finally:
        shutil.rmtree(w, ignore_errors=True)
    for k, lc in enumerate(long_cases):
        if k not in long_results:
            continue
        rep.cov["evaluations"] += 1
        for what, detail in confront_long(lc, long_results[k]):
            rep.violation("long-curve|" + what, "%s: %s; equity of %d observations from %s, peak %s at position %d" % (
                what, detail, len(lc[1]), ts(lc[0] * 1440).date(), max(lc[1]), lc[1].index(max(lc[1]))), dict(case=[lc[0], lc[1]], what=what, detail=detail))
    rep.cov["long_curves"] = len(long_results)
    nontriv = set()
    import multiprocessing
    # annualisation: 252 mostly, 52 for every fifth curve (JSONStatistics documents `periods` as an int: fractional values
    # are not generated; the documented hourly figure 252 * 6.5 overflows a float on the steepest two-point curves)
    jobs = [(idx, cases[idx], results[idx], 252 if idx % 5 else 52, sd) for idx in range(len(cases)) if idx in results]
    with multiprocessing.Pool(16) as pool:
        outs = pool.map(_job, jobs, chunksize=16)
    for (idx, case, _res, _p, _sd), mism in zip(jobs, outs):
        rep.cov["evaluations"] += 1
        x = case[1]
        if len(x) >= 3 and len(set(x)) >= 2:
            nontriv.add((case[0], tuple(x)))
        for what, detail in mism:
            if what.startswith("MODEL-"):
                rep.warnings.append("%s: %s; equity %s" % (what, detail, x))
                continue
            first_peak = x[0] == max(x) and len(set(x)) > 1
            key = "%s|%s" % (what, "first-point-is-peak" if first_peak and what in ("drawdown", "max_drawdown", "duration") else "general")
            rep.violation(key, "%s: %s; equity %s from %s" % (what, detail, x, ts(case[0] * 1440).date()), dict(case=[case[0], x], what=what, detail=detail))
        if idx < 2:
            rep.sample(dict(equity=x, first_day=str(ts(case[0] * 1440).date()), exact_drawdowns=[str(fr(v)) for v in results[idx][3]],
                            exact_max_drawdown=str(fr(results[idx][4])), duration=results[idx][5]))
    rep.cov["distinct_nontrivial"] = len(nontriv)
    rep.cov["traces_validated_against_impl"] = rep.cov["evaluations"]
    rep.cov["rule"] = ("equity curves over {1,2,3,4} of length 2-7 (all of them up to length 6 in the thorough tier) and longer curves over "
                       "{6,8,9,10,12}, on business-day indexes starting at six dates that cross a week, a month, a year and an ISO-week-53 "
                       "boundary; non-trivial = at least 3 points and not flat; distinct by (start, curve)")
    rep.cov["exhaustive"] = False
    return rep
