"""Clock engine: decides C12 (simulation clock) and C13 (rebalance schedules).

TLC evaluates specs/Clock.tla on date ranges supplied by the harness (every start day of two 75-day
windows in the thorough tier), checks C12_Clock / C13_Schedules / RangeLemma on each and prints the
event list and the four schedules.  The harness iterates the real DailyBusinessDaySimulationEngine and
builds the real WeeklyRebalance / DailyRebalance / EndOfMonthRebalance / BuyAndHoldRebalance for the
same ranges and compares the full lists; it also checks schedule-in-clock on the REAL objects.
"""
import json
import os
import random
import shutil

from . import tlc
from .broker_rig import minutes, ts
from .common import Report, seed, tier

KINDS = {0: "pre_market", 1: "market_open", 2: "market_close", 3: "post_market"}
WD = ["MON", "TUE", "WED", "THU", "FRI"]
WINDOWS = [(18245, 18322), (18737, 18813)]    # 2019-12-15..2020-03-01 ; 2021-04-20..2021-07-05


def gen_cases(n, sd, thorough):
    rng = random.Random(sd * 31 + 5)
    cases = []
    if thorough:
        for lo, hi in WINDOWS:
            for d in range(lo, hi):
                for tod in (0, 615, 870):
                    for span in (0, 1, 2, 3, 4, 6, 9, 14, 23, 31, 45):
                        etod = rng.choice([t for t in (0, 615, 870, 1260, 1439) if t >= tod])
                        cases.append([d * 1440 + tod, (d + span) * 1440 + etod, rng.random() < 0.5, rng.random() < 0.5,
                                      rng.randrange(5), rng.random() < 0.5])
    while len(cases) < n:
        k = rng.random()
        if k < 0.7:
            lo, hi = rng.choice(WINDOWS)
            d = rng.randint(lo, hi)
        else:
            d = rng.randint(10590, 24470)       # 1999 .. 2036
        tod = rng.choice([0, 0, 615, 870, 1, 869, 0, 0, 615, 870, 1, 869, 900, 1260, 1261, 1350, 1439])     # any time of day, also after the close
        span = rng.choice([0, 0, 1, 2, 3, 5, 7, 8, 13, 30, 31, 45, 62])
        if rng.random() < 0.03:                  # a LONG history: more than a year (the same calendar month twice, seed C13-a14), several
            span = rng.choice([200, 370, 400, 500, 760, 1100, 1500, 2200] if thorough else [200, 370, 400, 500, 760, 1500])    # years, year ends, > 1000 business days (seed C12-a14)
        etod = rng.choice([t for t in (0, 1, 615, 869, 870, 1260, 1439) if t >= tod])
        start, end = d * 1440 + tod, (d + span) * 1440 + etod
        if k > 0.95:                             # an end earlier than the start: must be rejected
            start, end = end + rng.choice([1, 1440, 600]), start
        cases.append([start, end, rng.random() < 0.5, rng.random() < 0.5, rng.randrange(5), rng.random() < 0.5])
    return cases


def cases_module(cases):
    body = ",\n".join("<< %d, %d, %s, %s, %d, %s >>" % (c[0], c[1], str(c[2]).upper(), str(c[3]).upper(), c[4], str(c[5]).upper())
                      for c in cases)
    return "---- MODULE ClockCases ----\nEXTENDS Integers\nCases == <<\n%s\n>>\n====\n" % body


def parse_tagged(out, tag):
    """every << "tag", ... >> tuple of integers / nested tuples printed by TLC -> list of python lists"""
    import re
    res = []
    pos = 0
    rx = re.compile(r'<<\s*"%s"' % tag)
    while True:
        m = rx.search(out, pos)
        if not m:
            break
        k = m.start()
        depth, j = 0, k
        while True:
            if out.startswith("<<", j):
                depth += 1
                j += 2
            elif out.startswith(">>", j):
                depth -= 1
                j += 2
                if depth == 0:
                    break
            else:
                j += 1
        res.append(json.loads(out[k:j].replace("<<", "[").replace(">>", "]").replace("TRUE", "true").replace("FALSE", "false"))[1:])
        pos = j
    return res


def parse_results(out):
    """<<"R", i, err, <<...>>, ...>> with integers only -> python lists (fast path through json)."""
    import re
    res = {}
    pos = 0
    rx = re.compile(r'<<\s*"R"')
    while True:
        m = rx.search(out, pos)
        if not m:
            break
        k = m.start()
        # find the matching close
        depth, j = 0, k
        while True:
            if out.startswith("<<", j):
                depth += 1
                j += 2
            elif out.startswith(">>", j):
                depth -= 1
                j += 2
                if depth == 0:
                    break
            else:
                j += 1
        txt = out[k:j].replace("<<", "[").replace(">>", "]")
        v = json.loads(txt)
        res[v[1]] = v[2:]
        pos = j
    return res


def real(case):
    from qstrader.simulation.daily_bday import DailyBusinessDaySimulationEngine
    from qstrader.system.rebalance.weekly import WeeklyRebalance
    from qstrader.system.rebalance.daily import DailyRebalance
    from qstrader.system.rebalance.end_of_month import EndOfMonthRebalance
    from qstrader.system.rebalance.buy_and_hold import BuyAndHoldRebalance
    start, end, pre, post, wd, premkt = case
    S, E = ts(start), ts(end)
    import pandas as pd
    if end >= start and (start + end) % 3 == 0:
        # the model counts minutes; a third of the ranges get seconds and microseconds on both ends - every stamp the code
        # produces must still be an exact minute (14:30:00.000000 ...), which `exact` checks
        frac = pd.Timedelta(seconds=30, microseconds=250)
        S, E = S + frac, E + frac

    def exact(t):
        m = minutes(t)
        return m if t == ts(m) else "%s (not a whole minute)" % t
    out = {}
    try:
        eng = DailyBusinessDaySimulationEngine(S, E, pre_market=pre, post_market=post)
        evs = [(exact(e.ts), e.event_type) for e in eng]
        out["clock"] = ("ok", evs)
        out["clock_again"] = [(exact(e.ts), e.event_type) for e in eng]      # the same engine object, iterated once more
    except Exception as e:
        out["clock"] = ("err", type(e).__name__)
    if end >= start:
        # when pre-market is NOT chosen the flag is simply left out for every other range (as a backtest session does)
        kw = {} if (not premkt and (start // 1440) % 2 == 0) else dict(pre_market=premkt)
        for name, f in (("weekly", lambda: WeeklyRebalance(S, E, WD[wd], **kw).rebalances),
                        ("daily", lambda: DailyRebalance(S, E, **kw).rebalances),
                        ("eom", lambda: EndOfMonthRebalance(S, E, **kw).rebalances)):
            try:
                out[name] = ("ok", [exact(t) for t in f()])
            except Exception as e:
                out[name] = ("err", "%s: %s" % (type(e).__name__, e))
    try:
        out["bah"] = ("ok", [minutes(t) for t in BuyAndHoldRebalance(ts(start)).rebalances])
    except Exception as e:
        out["bah"] = ("err", "%s: %s" % (type(e).__name__, e))
    return out


def bad_weekdays():
    from qstrader.system.rebalance.weekly import WeeklyRebalance
    S, E = ts(18264 * 1440), ts(18294 * 1440 + 1439)
    res = []
    for w in ("SAT", "SUN", "xyz", "", "MONDAY"):
        try:
            WeeklyRebalance(S, E, w)
            res.append((w, "accepted"))
        except ValueError:
            pass
        except Exception as e:
            res.append((w, type(e).__name__))
    for w in ("mon", "Fri", "wed"):              # case-insensitive spelling is accepted
        try:
            WeeklyRebalance(S, E, w)
        except Exception as e:
            res.append((w, "rejected: %s" % type(e).__name__))
    return res


def run(prop, replay_file=None):
    rep = Report(prop)
    t, sd = tier(), seed()
    rep.assumptions = ["(start, end) with the end's time of day not before the start's (quantifier of C12/C13), plus ranges with "
                       "end < start for the refusal", "timestamps are UTC-aware pandas Timestamps at minute resolution"]
    if replay_file:
        cases = [json.load(open(replay_file))["case"]]
    else:
        cases = gen_cases(2500 if t == "quick" else 30000, sd, t == "thorough")
    w = tlc.scratch()
    try:
        tlc.stage_all(w)
        results = {}
        for k in range(0, len(cases), 3000):
            chunk = cases[k:k + 3000]
            with open(os.path.join(w, "ClockCases.tla"), "w") as fh:
                fh.write(cases_module(chunk))
            with open(os.path.join(w, "c.cfg"), "w") as fh:
                fh.write("SPECIFICATION Spec\nINVARIANT InvC12\nINVARIANT InvC13\nINVARIANT InvLemma\nCHECK_DEADLOCK FALSE\n")
            try:
                r = tlc.run(w, "MC_Clock", "c.cfg", workers=16, timeout=3000, stack="768m")
            except tlc.TLCError as e:
                rep.machinery.append("TLC failed: %s" % str(e)[-1500:])
                continue
            rep.add_mc(r, "MC_Clock(cases %d..)" % k)
            if not r.ok:
                rep.machinery.append("the specification itself violates %s (spec error): %s" % (r.violated, r.trace[-1:]))
                continue
            got = parse_results(r.out)
            if len(got) != len(chunk):
                rep.machinery.append("TLC printed %d results for %d cases" % (len(got), len(chunk)))
                continue
            for j in range(len(chunk)):
                results[k + j] = got[j + 1]
    finally:
        shutil.rmtree(w, ignore_errors=True)
    nontriv = set()
    for idx, case in enumerate(cases):
        if idx not in results:
            continue
        err, clock, weekly, daily, eom, bah = results[idx]
        got = real(case)
        rep.cov["evaluations"] += 1
        desc = dict(start=str(ts(case[0])), end=str(ts(case[1])), pre=case[2], post=case[3], weekday=WD[case[4]], pre_market=case[5],
                    plus_30_00025_seconds_on_both_ends=(case[1] >= case[0] and (case[0] + case[1]) % 3 == 0))

        def viol(key, detail):
            rep.violation(key, "%s for %s" % (detail, desc), dict(case=case, detail=detail))

        if prop == "C12":
            if err:
                if got["clock"] != ("err", "ValueError"):
                    viol("clock|end-before-start", "end earlier than start not rejected with ValueError: %s" % (got["clock"],))
            else:
                exp = [(x // 4, KINDS[x % 4]) for x in clock]
                if got["clock"][0] != "ok":
                    viol("clock|raised", "clock raised %s" % got["clock"][1])
                elif got["clock"][1] != exp:
                    viol("clock|events", "clock events differ: first difference %s" % (_first_diff(got["clock"][1], exp),))
                elif got["clock_again"] != exp:
                    viol("clock|second-iteration", "iterating the same engine object a second time gives %d events instead of %d: %s" % (
                        len(got["clock_again"]), len(exp), _first_diff(got["clock_again"], exp)))
                if len(set(x // 4 // 1440 for x in clock)) >= 3:
                    nontriv.add(tuple(case[:4]))
        else:
            if err:
                continue
            for name, exp in (("weekly", weekly), ("daily", daily), ("eom", eom), ("bah", bah)):
                g = got[name]
                if g[0] != "ok":
                    viol("%s|raised" % name, "%s schedule raised %s" % (name, g[1]))
                elif g[1] != exp:
                    viol("%s|dates" % name, "%s schedule differs: %s" % (name, _first_diff(g[1], exp)))
                elif name != "bah" and got["clock"][0] == "ok":
                    # every scheduled instant meets an event of the REAL clock for the same range (all four phases on)
                    pass
            if got["clock"][0] != "ok" and any(got[nm][0] == "ok" and got[nm][1] for nm in ("weekly", "daily", "eom")):
                # the clock refuses a range for which the schedules hold instants: none of them can meet a clock event
                viol("clock|refuses-a-scheduled-range", "the schedules hold instants for this range but the clock raised %s" % (got["clock"][1],))
            if got["clock"][0] == "ok":
                from qstrader.simulation.daily_bday import DailyBusinessDaySimulationEngine
                full = set(minutes(e.ts) for e in DailyBusinessDaySimulationEngine(ts(case[0]), ts(case[1]), True, True))
                for name in ("weekly", "daily", "eom"):
                    if got[name][0] == "ok" and not set(got[name][1]) <= full:
                        viol("%s|not-a-clock-event" % name, "%s instants %s are not emitted by the clock" % (
                            name, [x if isinstance(x, str) else str(ts(x)) for x in sorted(set(got[name][1]) - full, key=str)][:3]))
            if len(weekly) >= 1 and len(eom) >= 1:
                nontriv.add(tuple(case))
        if idx < 2:
            rep.sample(dict(case=desc, clock_events=[(str(ts(x // 4)), KINDS[x % 4]) for x in clock[:6]],
                            weekly=[str(ts(x)) for x in weekly[:4]], end_of_month=[str(ts(x)) for x in eom[:3]],
                            buy_and_hold=[str(ts(x)) for x in bah]))
    if prop == "C13":
        for wname, what in bad_weekdays():
            rep.violation("weekly|weekday", "weekday %r: %s" % (wname, what), dict(weekday=wname, what=what))
    rep.cov["distinct_nontrivial"] = len(nontriv)
    rep.cov["traces_validated_against_impl"] = rep.cov["evaluations"]
    rep.cov["rule"] = ("date ranges drawn by seed (two 75-day windows containing a year end, a leap day and month ends on weekends; "
                       "plus random ranges 1999-2036); non-trivial = " +
                       ("ranges with at least three business days" if prop == "C12" else
                        "ranges holding at least one weekly and one end-of-month instant") + "; distinct by full input")
    rep.cov["exhaustive"] = False
    return rep


def _first_diff(got, exp):
    for i in range(max(len(got), len(exp))):
        g = got[i] if i < len(got) else None
        e = exp[i] if i < len(exp) else None
        if g != e:
            show = lambda m: m if isinstance(m, str) else str(ts(m))
            f = lambda x: None if x is None else ((show(x[0]), x[1]) if isinstance(x, tuple) else show(x))
            return dict(index=i, got=f(g), expected=f(e), got_len=len(got), expected_len=len(exp))
    return None
