"""Session engine: decides C08, C14, C19 (and is reused by C07 / C18 / C16 for the in-backtest parts).

For every configuration drawn on the exact dyadic grid TLC runs specs/Session.tla (clock x market x
broker x portfolio construction x execution, one step per component call), checks the run-level
properties in every state and prints the outcome of the run; the REAL BacktestTradingSession is run on
the same configuration (CSV files written from the model's market) and fills, final cash and holdings,
every equity point, every allocation record, the allocation table and a failure (class and event
time) must be IDENTICAL - floats are compared as exact fractions, no tolerance.
"""
import json
import multiprocessing
import os
import random
import shutil
from fractions import Fraction

from . import tlc
from .broker_rig import ts
from .common import Report, seed, tier
from .engine_clock import parse_results
from . import session_rig as sr

CFG = """SPECIFICATION SSpec
CONSTANTS
  Assets <- MCAssets
  Bug = "none"
  AssetSeq <- MCAssetSeq
  Cases <- CaseList
INVARIANT Report
INVARIANT C14_Rebalances
INVARIANT C14_Fills
INVARIANT C14_Equity
INVARIANT C08_FillAtNextOpen
INVARIANT C19_Membership
INVARIANT C07_Causal
INVARIANT C16_SessionCadence
INVARIANT C07_NoFuture
INVARIANT C01_Ledger
INVARIANT C02_Holdings
INVARIANT C04_Status
PROPERTY C08_EquityRule
PROPERTY C08_FillPrice
PROPERTY C04_Step
CHECK_DEADLOCK FALSE
"""
ERR = {0: None, 1: "ValueError", 2: "KeyError", 9: "other"}


def tlc_outcomes(w, cfgs, rep, label):
    """Model outcomes for the configurations; None for a configuration whose arithmetic overflows TLC's integers."""
    def skip(_c):
        rep.cov["skipped_overflow"] = rep.cov.get("skipped_overflow", 0) + 1
    return tlc.eval_with_bisect(lambda items: _tlc_outcomes(w, items, rep, label), cfgs, skip)


def _tlc_outcomes(w, cfgs, rep, label):
    with open(os.path.join(w, "SessionCases.tla"), "w") as fh:
        fh.write(sr.cases_module(cfgs))
    with open(os.path.join(w, "se.cfg"), "w") as fh:
        fh.write(CFG)
    r = tlc.run(w, "MC_Session", "se.cfg", workers=16, timeout=3000)
    if r.violated == "evaluation-error" and "Overflow when computing" in r.out:
        raise tlc.Overflow()
    rep.add_mc(r, label)
    if not r.ok:
        raise tlc.TLCError("the specification itself violates %s (spec error); last state: %s" % (
            r.violated, str(r.trace[-1:])[:1500]))
    got = parse_results(r.out)
    if len(got) != len(cfgs):
        raise tlc.TLCError("TLC printed %d outcomes for %d configurations" % (len(got), len(cfgs)))
    return [got[i + 1] for i in range(len(cfgs))]


def _real_job(job):
    c, sd = job
    import sys
    from .common import REPO
    if REPO not in sys.path:
        sys.path.insert(0, REPO)
    try:
        return sr.run_real(c, random.Random(sd))
    except Exception as e:                       # the rig itself failed
        o = sr.Outcome()
        o.extra["rig_error"] = "%s: %s" % (type(e).__name__, e)
        return o


def compare(c, exp, out):
    """exp: TLC outcome [err, errt, curve, allocs, fills, cash, holdings, table]; out: real Outcome.
    Returns list of (kind, detail)."""
    err, errt, curve, allocs, fills, cash, holdings, table = exp[:8]
    A = sr.ASSETS
    sym = lambda n: "EQ:" + A[n - 1]
    res = []
    if "rig_error" in out.extra:
        return [("rig", out.extra["rig_error"])]
    if out.cash is None:
        return [("failure", "the session could not be constructed: %s %s" % (out.failure, out.extra.get("construction_error")))]
    if "static_universe_after" in out.extra:
        conf = [sr.SYM[a] for a in sorted(c["entry"])]
        for got in out.extra["static_universe_after"]:
            if got != conf:
                res.append(("static-universe", "after the backtest the static universe configured with %s yields %s" % (conf, got[:12])))
                break
    exp_fail = None if err == 0 else (ERR[err], errt)
    if out.failure != exp_fail:
        res.append(("failure", "run ended with %s, expected %s %s" % (out.failure, exp_fail, out.extra.get("message", ""))))
    # rebalance instants
    exp_alloc_t = [t for t, _w in allocs]
    if [t for t, _w in out.allocs] != exp_alloc_t or out.pcm_calls != exp_alloc_t:
        res.append(("rebalance-instants", "portfolio construction ran at %s (records at %s), expected %s" % (
            [str(ts(t)) for t in out.pcm_calls], [str(ts(t)) for t, _ in out.allocs], [str(ts(t)) for t in exp_alloc_t])))
    else:
        scale = float(c.get("topn", 1)) if c["alpha"] == "topn" else 1.0      # the model records top-N weights in units of 1/N
        for (t, w), (_t, ew) in zip(out.allocs, allocs):
            e = dict((sym(n), float(x) / scale) for n, x in ew)
            if set(w) != set(e):
                res.append(("alloc-keys", "allocation at %s covers %s, expected %s" % (ts(t), sorted(w), sorted(e))))
            elif any(float(w[k]) != e[k] for k in e):
                res.append(("alloc-weights", "allocation at %s is %s, expected %s" % (ts(t), w, e)))
    # fills
    ef = [(t, sym(n), q, Fraction(px, 1000), Fraction(cm, 1000)) for t, n, q, px, cm in fills]
    if [f[0] for f in out.fills] != [f[0] for f in ef]:
        res.append(("fill-times", "fills at %s, expected %s" % ([str(ts(f[0])) for f in out.fills], [str(ts(f[0])) for f in ef])))
    elif [(f[1], f[2]) for f in out.fills] != [(f[1], f[2]) for f in ef]:
        res.append(("fill-quantities", "fills %s, expected %s" % ([(str(ts(f[0])), f[1], f[2]) for f in out.fills],
                                                                   [(str(ts(f[0])), f[1], f[2]) for f in ef])))
    else:
        for g, e in zip(out.fills, ef):
            if g[3] != e[3]:
                res.append(("fill-price", "fill %s %s x%s at %s priced %s, expected %s" % (g[1], ts(g[0]), g[2], ts(g[0]), float(g[3]), float(e[3]))))
                break
            if g[4] != e[4]:
                res.append(("fill-commission", "fill %s x%s at %s commission %s, expected %s" % (g[1], g[2], ts(g[0]), float(g[4]), float(e[4]))))
                break
    # final cash / holdings
    if out.cash != Fraction(cash, 1000):
        res.append(("cash", "final cash %s, expected %s" % (float(out.cash), cash / 1000.0)))
    eh = dict((sym(n), q) for n, q in holdings)
    if out.holdings != eh:
        res.append(("holdings", "final holdings %s, expected %s" % (out.holdings, eh)))
    # equity curve
    if [t for t, _v in out.curve] != [t for t, _v in curve]:
        res.append(("equity-dates", "equity sampled at %s, expected %s" % ([str(ts(t)) for t, _ in out.curve][:12], [str(ts(t)) for t, _ in curve][:12])))
    else:
        for (t, v), (_t, ev) in zip(out.curve, curve):
            if v != Fraction(ev, 1000):
                res.append(("equity-values", "equity at %s is %r, expected %r" % (ts(t), float(v), ev / 1000.0)))
                break
    # frames the user sees
    if out.failure is None and err == 0 and curve:      # (an empty curve - burn-in after the end, outside C14's
        if "frame_error" in out.extra:                   # quantifier - has no frame: get_equity_curve() cannot index it)
            res.append(("frames", out.extra["frame_error"]))
        else:
            edates = [str(ts(t).date()) for t, _v in curve]
            if out.equity_df_dates != edates:
                res.append(("equity-dates", "equity frame index %s, expected %s" % (out.equity_df_dates[:10], edates[:10])))
            if out.alloc_df is not None and c["alpha"] == "single":
                # C19 on the table the session reports: no weight on a day before the asset's entry day (or without entry)
                for d, row in zip(out.alloc_df["index"], out.alloc_df["rows"]):
                    early = [a for a, v in row.items() if v is not None and v != 0 and a[3:] in c["entry"] and (
                        c["entry"][a[3:]] == -1 or (c["entry"][a[3:]] > 0 and str(ts(c["entry"][a[3:]]).date()) > d[:10]))]
                    if early:
                        res.append(("alloc-table-before-entry", "the allocation table reports a weight for %s on %s, before its universe entry %s" % (
                            early[0], d[:10], "(none)" if c["entry"][early[0][3:]] == -1 else ts(c["entry"][early[0][3:]]))))
                        break
            if allocs and out.alloc_df is not None:
                burn_date = None if c["burn"] == -1 else str(ts(c["burn"]).date())
                rows = [(d, k) for d, k in zip(edates, table) if burn_date is None or d >= burn_date]
                if out.alloc_df["index"] != [d for d, _k in rows]:
                    res.append(("alloc-table", "allocation table index %s, expected %s" % (out.alloc_df["index"][:10], [d for d, _ in rows][:10])))
                else:
                    for (d, k), row in zip(rows, out.alloc_df["rows"]):
                        if k == 0:
                            if any(v is not None for v in row.values()):
                                res.append(("alloc-table", "allocation row %s is %s before any rebalance" % (d, row)))
                                break
                        else:
                            # the row must be the forward fill of what the session ITSELF recorded at the k-th rebalance
                            # (which weights a signal-driven alpha model chooses is not C14's subject); the model's
                            # record stands in only when the session recorded fewer rebalances than the model
                            if k - 1 < len(out.allocs):
                                e = dict((a, float(v)) for a, v in out.allocs[k - 1][1].items())
                            else:
                                e = dict((sym(n), float(x) / (float(c.get("topn", 1)) if c["alpha"] == "topn" else 1.0)) for n, x in allocs[k - 1][1])
                            got = dict((a, v) for a, v in row.items() if v is not None)
                            if got != e:
                                res.append(("alloc-table", "allocation row %s is %s, expected the record of %s: %s" % (
                                    d, row, ts(allocs[k - 1][0]), e)))
                                break
    return res


# which mismatch kinds belong to which property
OWN = {
    "C08": {"failure", "fill-times", "fill-quantities", "fill-price", "fill-commission", "cash", "holdings", "equity-values",
            "alloc-weights", "alloc-keys", "rebalance-instants", "equity-dates"},
    "C14": {"rebalance-instants", "fill-times", "equity-dates", "equity-values", "alloc-table", "frames"},
    "C19": {"alloc-keys", "alloc-weights", "fill-quantities", "holdings", "fill-times", "static-universe", "alloc-table-before-entry"},
}


def features(c, exp):
    err, errt, curve, allocs, fills, cash, holdings, table = exp[:8]
    f = set()
    if len(allocs) >= 2:
        f.add("two-rebalances")
    if fills:
        f.add("fills")
    if c["burn"] != -1 and allocs and any(t == c["burn"] for t, _ in allocs):
        f.add("burn-on-rebalance")
    if c["burn"] != -1:
        f.add("burn")
    if c["alpha"] == "single" and any(e > c["start"] for e in c["entry"].values()):
        f.add("late-entry")
        if any(any(t >= e > c["start"] for t, _ in allocs) for e in c["entry"].values() if e > 0):
            f.add("late-entry-traded")
    if err:
        f.add("failure")
    return f


NONTRIVIAL = {
    "C08": ("configurations with at least two rebalances and at least one fill", lambda f: "two-rebalances" in f and "fills" in f),
    "C14": ("configurations with a burn-in and at least one fill, or at least two rebalances", lambda f: ("burn" in f and "fills" in f) or "two-rebalances" in f),
    "C19": ("universe-driven configurations in which an asset enters after the start and is traded afterwards", lambda f: "late-entry-traded" in f),
}


def universe_unit(rep):
    """C19, unit level: TLC enumerates entry maps x query instants and weight dictionaries x scales on
    specs/Universe.tla (checking C19_Universe / C19_Optimisers) and prints every answer; the real
    DynamicUniverse / StaticUniverse / FixedWeightPortfolioOptimiser / EqualWeightPortfolioOptimiser
    are asked the same questions."""
    import re
    from qstrader.asset.universe.dynamic import DynamicUniverse
    from qstrader.asset.universe.static import StaticUniverse
    from qstrader.portcon.optimiser.equal_weight import EqualWeightPortfolioOptimiser
    from qstrader.portcon.optimiser.fixed_weight import FixedWeightPortfolioOptimiser
    w = tlc.scratch()
    try:
        tlc.stage_all(w)
        with open(os.path.join(w, "u.cfg"), "w") as fh:
            fh.write("SPECIFICATION Spec\nINVARIANT Inv\nINVARIANT Out\nCHECK_DEADLOCK FALSE\n")
        try:
            r = tlc.run(w, "MC_Universe", "u.cfg", workers=16, timeout=1200)
        except tlc.TLCError as e:
            rep.machinery.append("TLC failed on MC_Universe: %s" % str(e)[-1200:])
            return 0
        rep.add_mc(r, "MC_Universe")
        if not r.ok:
            rep.machinery.append("Universe.tla violates %s (spec error)" % r.violated)
            return 0
    finally:
        shutil.rmtree(w, ignore_errors=True)
    base = 18264 * 1440
    n = 0
    names = ["EQ:A", "EQ:B", "EQ:C", "EQ:D"]
    shared = {}
    for m in re.finditer(r'<<"U", <<(-?\d+), (-?\d+), (-?\d+)>>, (\d+), <<(\d), (\d), (\d)>>>>', r.out):
        ent = [int(m.group(i)) for i in (1, 2, 3)]
        t = int(m.group(4))
        exp = [names[i] for i in range(3) if m.group(5 + i) == "1"]
        # one universe object per entry map, asked again and again (TLC's order, then every third query once more)
        key = tuple(ent)
        if key not in shared:
            # (entry dates and query instants are also expressed in other time zones: the comparison is between instants)
            zone = lambda k: ["UTC", "Asia/Tokyo", "America/New_York", "Europe/Berlin"][(k + len(shared)) % 4]
            # "no entry date" is None for every other map and pandas' own missing date, NaT, for the rest (what a date column read
            # with pandas holds in an empty cell)
            import pandas as pd
            nodate = None if len(shared) % 2 == 0 else pd.NaT
            shared[key] = (DynamicUniverse(dict((names[i], (nodate if e == -1 else ts(base + e).tz_convert(zone(i)))) for i, e in enumerate(ent))), [])
        uni, asked = shared[key]
        got = uni.get_assets(ts(base + t).tz_convert(["UTC", "Europe/Berlin", "Asia/Tokyo"][t % 3]))
        asked.append((t, exp))
        if len(asked) % 3 == 0:
            t_old, exp_old = asked[len(asked) // 3 - 1]
            again = uni.get_assets(ts(base + t_old))
            if sorted(again) != exp_old:
                rep.violation("universe|dynamic-membership", "DynamicUniverse with entry offsets %s, asked a second time for offset %s after "
                              "other queries, yields %s, expected %s" % (ent, t_old, again, exp_old), dict(unit="dynamic-again", entry=ent, t=t_old))
        n += 1
        if sorted(got) != exp or len(got) != len(set(got)):
            rep.violation("universe|dynamic-membership", "DynamicUniverse with entry offsets %s at offset %s yields %s, expected %s" % (ent, t, got, exp),
                          dict(unit="dynamic", entry=ent, t=t))
        st = StaticUniverse(list(exp))
        if st.get_assets(ts(base + t)) != exp or st.get_assets(ts(base - 10 ** 6)) != exp:
            rep.violation("universe|static", "StaticUniverse(%s) yields %s" % (exp, st.get_assets(ts(base + t))), dict(unit="static"))
    from .engine_clock import parse_tagged
    dt = ts(base)
    eq_instances, fx_instance = {}, FixedWeightPortfolioOptimiser()    # as in a backtest: ONE optimiser object answers every rebalance, whatever
    #                                                                    the number of assets it is handed this time (seed C19-a14)
    for sc, ws, es in parse_tagged(r.out, "O"):
        scale = Fraction(sc[0], sc[1])
        weights = dict((names[i], float(Fraction(a, b))) for i, (a, b) in enumerate(ws) if b != 0)
        exp = dict((names[i], Fraction(a, b)) for i, (a, b) in enumerate(es) if b != 0)
        n += 1
        try:
            got_f = (fx_instance if n % 2 else FixedWeightPortfolioOptimiser())(dt, initial_weights=dict(weights))
        except Exception as e:
            got_f = "%s: %s" % (type(e).__name__, e)
        if got_f != weights:
            rep.violation("optimiser|fixed", "fixed-weight optimiser returned %s for %s" % (got_f, weights), dict(unit="fixed", weights=weights))
        try:
            if n % 3 == 0:
                eq = EqualWeightPortfolioOptimiser(scale=float(scale))
            else:
                eq = eq_instances.setdefault(scale, EqualWeightPortfolioOptimiser(scale=float(scale)))
            got_e = eq(dt, initial_weights=dict(weights))
        except Exception as e:
            rep.violation("optimiser|equal", "equal-weight optimiser (scale %s) raised %s: %s for the non-empty weights %s" % (
                scale, type(e).__name__, e, weights), dict(unit="equal", weights=weights, scale=str(scale)))
            continue
        if set(got_e) != set(exp) or any(abs(got_e[k] - float(exp[k])) > 1e-12 for k in exp) or abs(sum(got_e.values()) - float(scale)) > 1e-12:
            rep.violation("optimiser|equal", "equal-weight optimiser (scale %s) returned %s for keys %s, expected %s each" % (
                scale, got_e, sorted(weights), float(scale) / len(weights)), dict(unit="equal", weights=weights, scale=str(scale)))
    rep.cov["unit_cases"] = n
    if n < 2000:
        rep.machinery.append("only %d universe/optimiser cases were parsed from TLC's output" % n)
    return n


def run(prop, replay_file=None):
    rep = Report(prop)
    t, sd = tier(), seed()
    rep.assumptions = [
        "exact dyadic grid: prices in {8, 10, 12.5, 16}, cash and fee rates dyadic, weight sums powers of two -> every float the "
        "session computes is exact and is compared as an exact fraction (no tolerance)",
        "start time of day 00:00 or 14:30, end 23:59; buy-and-hold with a 14:30 start; adjusted close = close",
        "universe-driven runs have market data from the entry day on (or the run must fail identically in model and code)",
    ]
    rng = random.Random(sd * 9973 + {"C08": 1, "C14": 2, "C19": 3}.get(prop, 4))
    n = 600 if t == "quick" else 12000
    if replay_file:
        cfgs = [json.load(open(replay_file))["config"]]
    else:
        # C08 speaks about fixed-weight backtests; the signal-driven top-N configurations are used where the
        # property is about WHEN a session trades (C14) and by C16's in-backtest part
        kinds = ("single",) if prop == "C19" else (("fixed", "fixed", "single") if prop == "C08" else ("fixed", "fixed", "single", "topn"))
        cfgs = [sr.gen_config(rng, alpha_kinds=kinds) for _ in range(n)]
        if prop in ("C14", "C19"):
            # a member LEAVES the universe in about a fifth of the universe-driven configurations (second stream of draws)
            rng1 = random.Random(sd * 9973 + 99)
            nexit = 0
            for c_ in cfgs:
                if c_["alpha"] == "single" and rng1.random() < 0.4:
                    nexit += sr.add_exit(c_, rng1)
            rep.cov["configurations_with_an_asset_leaving_the_universe"] = nexit
        if prop == "C08":
            rng0 = random.Random(sd * 9973 + 77)
            cfgs += [sr.gen_zero_units_config(rng0) for _ in range(n // 12)]
    if prop == "C19" and not replay_file:
        rep.cov["evaluations"] += universe_unit(rep)
    w = tlc.scratch()
    exps = []
    try:
        tlc.stage_all(w)
        for k in range(0, len(cfgs), 400):
            try:
                exps.extend(tlc_outcomes(w, cfgs[k:k + 400], rep, "MC_Session(cases %d..)" % k))
            except tlc.TLCError as e:
                rep.machinery.append(str(e)[-2500:])
                return rep
    finally:
        shutil.rmtree(w, ignore_errors=True)
    with multiprocessing.Pool(16) as pool:
        outs = pool.map(_real_job, [(c, sd * 31 + i) for i, c in enumerate(cfgs)], chunksize=4)
    desc, pred = NONTRIVIAL[prop]
    nontriv = 0
    for i, (c, exp, out) in enumerate(zip(cfgs, exps, outs)):
        if exp is None:
            continue
        if len(exp) > 9 and exp[9]:
            # the top-N selection hinges on an exact tie between different price windows: floating point may break it
            # either way, the model cannot say which - the run is not judged
            rep.cov["skipped_float_tie"] = rep.cov.get("skipped_float_tie", 0) + 1
            continue
        rep.cov["evaluations"] += 1
        if pred(features(c, exp)):
            nontriv += 1
        for kind, detail in compare(c, exp, out):
            if kind == "rig":
                rep.machinery.append(detail)
                continue
            if kind not in OWN[prop]:
                continue
            if prop == "C19" and c["alpha"] != "single":
                continue
            rep.violation("session|%s|%s" % (kind, c["sched"]), "%s: %s; configuration: %s" % (kind, detail, _brief(c)),
                          dict(config=c, kind=kind, detail=detail))
        if pred(features(c, exp)) and len(rep.cov["samples"]) < 3:
            rep.sample(dict(configuration=_brief(c), tlc_fills=[(str(ts(f[0])), sr.ASSETS[f[1] - 1], f[2], f[3] / 1000.0, f[4] / 1000.0) for f in exp[4]][:8],
                            tlc_equity=[(str(ts(t)), v / 1000.0) for t, v in exp[2]][:6], real_equity=[(str(ts(t)), float(v)) for t, v in out.curve][:6]))
    rep.cov["traces_validated_against_impl"] = len(cfgs)
    rep.cov["distinct_nontrivial"] = nontriv
    rep.cov["rule"] = "backtest configurations drawn by seed on the exact grid (1-3 assets, 3-11 business days, all schedule kinds, both sizers, fees, burn-in variants, static / dynamic universes, gaps and missing cells); non-trivial = " + desc
    rep.cov["exhaustive"] = False
    return rep


def _brief(c):
    return dict(start=str(ts(c["start"])), end=str(ts(c["end"])), burn_in=(None if c["burn"] == -1 else str(ts(c["burn"]))),
                rebalance=c["sched"] + ("-" + sr.WD[c["wd"]] if c["sched"] == "weekly" else ""), sizing=c["kind"], par=c["par"],
                fee=c["fee"], cash=c["cash"] / 1000.0, alpha=c["alpha"], weights=c["weights"],
                entry=dict((a, (e if e <= 0 else str(ts(e)))) for a, e in c["entry"].items()),
                bars=dict((a, len(b)) for a, b in c["market"].items()))
