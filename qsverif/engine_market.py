"""Market engine: decides C06.

TLC enumerates bar files x adjustment x query instants on specs/Market.tla (MC_Market), checks that
the operational transcription of the code's lookup equals the declarative point-in-time quote and
depends on past rows only, and prints the answer of every case.  The harness materialises every file
as a CSV (rows shuffled), builds the real CSVDailyBarDataSource + BacktestDataHandler, asks the same
questions and compares.  The oracle is what TLC computed.
"""
import itertools
import math
import multiprocessing
import os
import random
import re
import shutil
import tempfile
from fractions import Fraction

from . import tlc
from .common import Report, seed, tier
from .broker_rig import ts

DAYS = [18263, 18264, 18267, 18269]            # must match MC_Market.D
SYMBOL = "AAA"
# spellings of the one symbol a case is about: upper case, lower case ending in letters of ".csv", dotted tickers
SYMBOLS = ["AAA", "ivv", "abcs", "BRK.B", "aapl.us", "SPY", "xcsv"]
RE_Q = re.compile(r'<<"Q", <<(\d), (\d), (\d), (\d)>>, (TRUE|FALSE), (\d+), <<(-?\d+), (\d+)>>>>')


def all_codes():
    return [c for c in itertools.product(range(9), repeat=4) if any(c)]


def cases_module(codes):
    body = ", ".join("<<%d,%d,%d,%d>>" % c for c in codes)
    return "---- MODULE MarketCases ----\nCaseCodes == { %s }\n====\n" % body


CFG = """SPECIFICATION Spec
CONSTANTS
  Days <- D
  PAD_WRAPS = %s
  Codes <- CaseCodes
INVARIANT InvEquals
INVARIANT InvPointInTime
INVARIANT InvNaNBefore
INVARIANT InvAnswer
CHECK_DEADLOCK FALSE
"""


def cell(i, col, missing):
    return None if missing else 16 * i + col


def rows_of(code):
    """[(day, open, close, adj)] exactly as MC_Market.RowOf (None = missing)."""
    out = []
    for i, c in enumerate(code, 1):
        if c == 0:
            continue
        m = c - 1
        out.append((DAYS[i - 1], cell(i, 1, m % 2 == 1), cell(i, 5, (m // 2) % 2 == 1), cell(i, 3, (m // 4) % 2 == 1)))
    return out


def write_csv(path, rows, rng, shift_days=0):
    from .broker_rig import EPOCH
    import pandas as pd
    rows = [(dd + shift_days, o, c, a) for dd, o, c, a in rows]
    rng.shuffle(rows)
    # the columns are found by NAME: their order in the file varies
    cols = ["Date", "Open", "High", "Low", "Close", "Adj Close", "Volume"]
    if rng.random() < 0.5:
        rng.shuffle(cols)
    with open(path, "w") as fh:
        fh.write(",".join(cols) + "\n")
        for d, o, c, a in rows:
            date = (EPOCH + pd.Timedelta(days=d)).strftime("%Y-%m-%d")
            f = lambda x: "" if x is None else repr(float(x))
            cell = {"Date": date, "Open": f(o), "High": f(200.0), "Low": f(1.0), "Close": f(c), "Adj Close": f(a), "Volume": "1000"}
            fh.write(",".join(cell[k] for k in cols) + "\n")


def _same(x, exp):
    """float x against expected (num, den); den == 0 means NaN."""
    num, den = exp
    if den == 0:
        return isinstance(x, float) and math.isnan(x) or (x != x)
    if x != x:
        return False
    e = Fraction(num, den)
    return abs(Fraction(float(x)) - e) <= Fraction(1, 10 ** 12) * max(1, abs(e))


def confront(job):
    """One file (code) in one process: returns list of mismatches."""
    code, expected, sd, two_pass = job
    import sys
    from .common import REPO
    if REPO not in sys.path:
        sys.path.insert(0, REPO)
    from qstrader import settings
    settings.set_print_events(False)
    from qstrader.asset.equity import Equity
    from qstrader.data.daily_bar_csv import CSVDailyBarDataSource
    from qstrader.data.backtest_data_handler import BacktestDataHandler
    rng = random.Random(hash((sd, code)) & 0xffffffff)
    d = tempfile.mkdtemp(prefix="qsv-mkt-")
    out = []
    n = 0
    try:
        SYMBOL = SYMBOLS[(sum(code) // 3) % len(SYMBOLS)]
        # every other file lives 26 weeks later (same weekdays; July instead of January): bars are stamped 14:30 / 21:00 UTC
        # all year round
        season = 182 if (sum(code) // 2) % 2 else 0
        sm = season * 1440
        write_csv(os.path.join(d, SYMBOL + ".csv"), rows_of(code), rng, season)
        asset = "EQ:" + SYMBOL
        # other symbols in the same directory (their names extend / are a prefix of SYMBOL, their rows are other rows at
        # other prices, one day later) must not influence what is answered for SYMBOL; the directory is loaded with an
        # explicit symbol list, as a whole, or with a list naming a neighbour first
        mode = sum(code) % 3
        if mode:
            for nb_, shift in ((SYMBOL + "L", 1), (SYMBOL[:-1], 2)):
                other = [(dd + shift, None if o is None else o + 31 * shift, None if c is None else c + 17 * shift,
                          None if a is None else a + 5 * shift) for dd, o, c, a in rows_of(tuple(reversed(code)))]
                write_csv(os.path.join(d, nb_ + ".csv"), other, rng, season)
        symlist = [[SYMBOL], None, [SYMBOL + "L", SYMBOL]][mode]
        for adjust in (False, True):
            exp = expected[adjust]
            try:
                ds = CSVDailyBarDataSource(d, Equity, adjust_prices=adjust, csv_symbols=symlist)
                dh = BacktestDataHandler(None, data_sources=[ds])
            except Exception as e:
                out.append((code, adjust, None, "construction", "raised %s: %s" % (type(e).__name__, e)))
                continue
            instants = sorted(exp)
            orders = [instants]
            if two_pass:
                o2 = list(instants)
                rng.shuffle(o2)
                orders.append(o2)
            for oi, order in enumerate(orders):
                if oi > 0:
                    # a FRESH source asked in shuffled order (nothing memoised): the answer to a query must not
                    # depend on which queries came before it
                    ds = CSVDailyBarDataSource(d, Equity, adjust_prices=adjust, csv_symbols=symlist)
                    dh = BacktestDataHandler(None, data_sources=[ds])
                for t in order:
                    T = ts(t + sm)
                    if (t // 7) % 3 == 0:
                        T = T.tz_convert(["Asia/Tokyo", "America/New_York", "Europe/Berlin"][(t // 21) % 3])   # the same instant in another zone
                    got = {}
                    try:
                        got["get_bid"] = ds.get_bid(T, asset)
                        got["get_ask"] = ds.get_ask(T, asset)
                        got["handler_bid"] = dh.get_asset_latest_bid_price(T, asset)
                        got["handler_ask"] = dh.get_asset_latest_ask_price(T, asset)
                        ba = dh.get_asset_latest_bid_ask_price(T, asset)
                        got["handler_bid_ask[0]"], got["handler_bid_ask[1]"] = ba[0], ba[1]
                        got["handler_mid"] = dh.get_asset_latest_mid_price(T, asset)
                    except Exception as e:
                        out.append((code, adjust, t, "query", "raised %s: %s" % (type(e).__name__, e)))
                        continue
                    n += 1
                    for k, v in got.items():
                        if not _same(v, exp[t]):
                            out.append((code, adjust, t, k, "returned %r, expected %s" % (
                                float(v), "NaN" if exp[t][1] == 0 else "%d/%d" % exp[t])))
        # recurring prices: the same file with some cells made EQUAL to earlier, non-adjacent ones (day 3 opens at day 1's
        # open and closes at day 2's close, day 4 opens at day 1's close).  Without adjustment an answer is one cell's
        # value or NaN, so the expected answers are the specification's, mapped cell by cell.
        alias = {49: 17, 53: 37, 65: 21}
        d2 = tempfile.mkdtemp(prefix="qsv-mkt-rec-")
        try:
            rows = [(dd, alias.get(o, o), alias.get(c, c), a) for dd, o, c, a in rows_of(code)]
            write_csv(os.path.join(d2, SYMBOL + ".csv"), rows, rng, season)
            try:
                ds = CSVDailyBarDataSource(d2, Equity, adjust_prices=False, csv_symbols=[SYMBOL])
                for t in sorted(expected[False]):
                    e = expected[False][t]
                    e = (alias.get(e[0], e[0]), e[1]) if e[1] == 1 else e
                    for k, v in (("get_bid", ds.get_bid(ts(t + sm), asset)), ("get_ask", ds.get_ask(ts(t + sm), asset))):
                        n += 1
                        if not _same(v, e):
                            out.append((code, False, t, k + "(recurring prices)", "returned %r, expected %s" % (
                                float(v), "NaN" if e[1] == 0 else "%d/%d" % e)))
            except Exception as ex:
                out.append((code, False, None, "query(recurring prices)", "raised %s: %s" % (type(ex).__name__, ex)))
        finally:
            shutil.rmtree(d2, ignore_errors=True)
    finally:
        shutil.rmtree(d, ignore_errors=True)
    return n, out


def describe(code, adjust, t):
    rows = rows_of(code)
    return dict(rows=[dict(day=str(ts(d * 1440).date()), open=o, close=c, adj_close=a) for d, o, c, a in rows],
                adjust=adjust, query=str(ts(t)) if t is not None else None)


RE_H = re.compile(r'<<"H", <<(\d), (\d), (\d), (\d), (\d), (\d), (\d), (\d)>>, (TRUE|FALSE), (\d+), <<(-?\d+), (\d+)>>>>')


def _pair_job(job):
    code, exp, sd = job
    import sys
    from .common import REPO
    if REPO not in sys.path:
        sys.path.insert(0, REPO)
    from qstrader import settings
    settings.set_print_events(False)
    from qstrader.asset.equity import Equity
    from qstrader.data.daily_bar_csv import CSVDailyBarDataSource
    from qstrader.data.backtest_data_handler import BacktestDataHandler
    rng = random.Random(hash((sd, code)) & 0xffffffff)
    d1, d2 = tempfile.mkdtemp(prefix="qsv-mk1-"), tempfile.mkdtemp(prefix="qsv-mk2-")
    out, n = [], 0
    try:
        SYMBOL = SYMBOLS[(sum(code) // 2) % len(SYMBOLS)]
        write_csv(os.path.join(d1, SYMBOL + ".csv"), rows_of(code[:4]), rng)
        write_csv(os.path.join(d2, SYMBOL + ".csv"), rows_of(code[4:]), rng)
        # for every other pair a source that does not know the symbol at all stands in FRONT of the two (in the
        # specification: a source answering NaN at every instant, which FirstNonNaN passes over)
        stranger = sum(code) % 2 == 1
        if stranger:
            os.mkdir(os.path.join(d1, "other"))
            write_csv(os.path.join(d1, "other", "ZZZ.csv"), rows_of(code[4:]), rng)
        for adjust in (False, True):
            srcs = [CSVDailyBarDataSource(d, Equity, adjust_prices=adjust, csv_symbols=[SYMBOL]) for d in (d1, d2)]
            if stranger:
                srcs.insert(0, CSVDailyBarDataSource(os.path.join(d1, "other"), Equity, adjust_prices=adjust))
            dh = BacktestDataHandler(None, data_sources=srcs)
            for t, e in sorted(exp[adjust].items()):
                T = ts(t)
                got = dict(bid=dh.get_asset_latest_bid_price(T, "EQ:" + SYMBOL), ask=dh.get_asset_latest_ask_price(T, "EQ:" + SYMBOL),
                           mid=dh.get_asset_latest_mid_price(T, "EQ:" + SYMBOL))
                n += 1
                for k, v in got.items():
                    if not _same(v, e):
                        out.append((code, adjust, t, "handler(%s)." % ("a source without the symbol + 2 sources" if stranger else "2 sources") + k,
                                    "returned %r, expected %s" % (float(v), "NaN" if e[1] == 0 else "%d/%d" % e)))
    finally:
        shutil.rmtree(d1, ignore_errors=True)
        shutil.rmtree(d2, ignore_errors=True)
    return n, out


def pair_check(rep, codes, sd, npairs):
    rng = random.Random(sd + 77)
    nonempty = [c for c in codes if any(c)]
    pairs = sorted(set(tuple(rng.choice(nonempty)) + tuple(rng.choice(nonempty)) for _ in range(npairs)))
    w = tlc.scratch()
    try:
        tlc.stage_all(w)
        with open(os.path.join(w, "MarketCases.tla"), "w") as fh:
            fh.write("---- MODULE MarketCases ----\nCaseCodes == { %s }\n====\n" % ", ".join("<<%s>>" % ",".join(str(x) for x in p) for p in pairs))
        with open(os.path.join(w, "h.cfg"), "w") as fh:
            fh.write("SPECIFICATION HSpec\nCONSTANTS\n  Days <- D\n  PAD_WRAPS = FALSE\n  Codes <- CaseCodes\nINVARIANT InvHandler\nCHECK_DEADLOCK FALSE\n")
        try:
            r = tlc.run(w, "MC_Market", "h.cfg", workers=16, timeout=3000)
        except tlc.TLCError as e:
            rep.machinery.append("TLC failed on the two-source instance: %s" % str(e)[-1200:])
            return 0
        rep.add_mc(r, "MC_Market(two sources)")
        if not r.ok:
            rep.machinery.append("the two-source handler specification violates %s (spec error)" % r.violated)
            return 0
    finally:
        shutil.rmtree(w, ignore_errors=True)
    exp = {}
    for m in RE_H.finditer(r.out):
        code = tuple(int(m.group(i)) for i in range(1, 9))
        exp.setdefault(code, {False: {}, True: {}})[m.group(9) == "TRUE"][int(m.group(10))] = (int(m.group(11)), int(m.group(12)))
    if set(exp) != set(pairs):
        rep.machinery.append("TLC printed answers for %d of %d source pairs" % (len(exp), len(pairs)))
        return 0
    with multiprocessing.Pool(16) as pool:
        res = pool.map(_pair_job, [(c, exp[c], sd) for c in pairs], chunksize=4)
    for n, out in res:
        rep.cov["evaluations"] += n
        for code, adjust, tq, what, detail in out:
            rep.violation("handler|two-sources", "%s %s; first source %s, second source %s" % (what, detail, describe(code[:4], adjust, tq), describe(code[4:], adjust, tq)["rows"]),
                          dict(code=list(code[:4]), code2=list(code[4:]), adjust=adjust, t=tq, what=what))
    rep.cov["source_pairs"] = len(pairs)
    return len(pairs)


def run(prop, replay_file=None):
    assert prop == "C06"
    rep = Report(prop)
    t, sd = tier(), seed()
    rep.assumptions = [
        "bar files: up to 4 rows on Thu/Fri/Mon/Wed, every cell present (a price unique to the cell) or missing; "
        "rows written in shuffled order; dates distinct; at least one row (a header-only CSV is outside the property)",
        "floats are compared with TLC's exact rationals at 1e-12 relative; NaN must be NaN",
    ]
    codes = all_codes()
    if replay_file:
        import json
        payload = json.load(open(replay_file))
        codes = [tuple(payload["code"])]
    elif t == "quick":
        rng = random.Random(sd)
        special = [(0, 0, 0, 1), (1, 0, 0, 0), (1, 1, 1, 1), (8, 1, 1, 1), (1, 8, 0, 1), (2, 3, 5, 1), (1, 0, 1, 0), (0, 1, 0, 8)]
        codes = sorted(set(special + rng.sample(codes, 700)))
    w = tlc.scratch()
    try:
        tlc.stage_all(w)
        with open(os.path.join(w, "MarketCases.tla"), "w") as fh:
            fh.write(cases_module(codes))
        with open(os.path.join(w, "mk.cfg"), "w") as fh:
            fh.write(CFG % "FALSE")
        try:
            r = tlc.run(w, "MC_Market", "mk.cfg", workers=16, timeout=3000)
        except tlc.TLCError as e:
            rep.machinery.append("TLC failed: %s" % str(e)[-1500:])
            return rep
        rep.add_mc(r, "MC_Market")
        if not r.ok:
            rep.machinery.append("the specification itself violates %s (spec error)" % r.violated)
            return rep
        expected = {}
        nq = 0
        for m in RE_Q.finditer(r.out):
            code = tuple(int(m.group(i)) for i in range(1, 5))
            adjust = m.group(5) == "TRUE"
            expected.setdefault(code, {False: {}, True: {}})[adjust][int(m.group(6))] = (int(m.group(7)), int(m.group(8)))
            nq += 1
        ninst = len(next(iter(expected.values()))[False]) if expected else 0
        if set(expected) != set(codes) or nq != len(codes) * 2 * ninst:
            rep.machinery.append("TLC printed %d answers for %d files x 2 x %d instants" % (nq, len(codes), ninst))
            return rep
        # spec sensitivity: with the wrap-around of iloc[-1] modelled, TLC must find the look-ahead itself
        with open(os.path.join(w, "MarketCases.tla"), "w") as fh:
            fh.write(cases_module([(0, 0, 0, 1), (0, 1, 0, 2)]))
        with open(os.path.join(w, "mk.cfg"), "w") as fh:
            fh.write(CFG % "TRUE")
        r2 = tlc.run(w, "MC_Market", "mk.cfg", workers=1, timeout=600)
        rep.cov["spec_sensitivity"] = dict(PAD_WRAPS=True, tlc_reports=r2.violated)
        if r2.violated is None:
            rep.machinery.append("sensitivity: TLC did not find the look-ahead with PAD_WRAPS = TRUE")
    finally:
        shutil.rmtree(w, ignore_errors=True)
    # two data sources behind one handler (fallback order)
    npairs = pair_check(rep, codes, sd, 150 if t == "quick" else 2500)
    jobs = [(c, expected[c], sd, t == "thorough" or i % 3 == 0) for i, c in enumerate(codes)]   # second pass in shuffled query order
    with multiprocessing.Pool(16) as pool:
        results = pool.map(confront, jobs, chunksize=8)
    nqueries = 0
    for (n, out), job in zip(results, jobs):
        nqueries += n
        for code, adjust, tq, what, detail in out:
            before = tq is not None and all(d * 1440 + 870 > tq for d, _o, _c, _a in rows_of(code))
            key = "%s|%s" % ("before-first-bar" if before else "lookup", what.split("[")[0])
            rep.violation(key, "%s %s for %s" % (what, detail, describe(code, adjust, tq)),
                          dict(code=list(code), adjust=adjust, t=tq, what=what, detail=detail))
    rep.cov["evaluations"] += nqueries
    rep.cov["traces_validated_against_impl"] = len(codes) * 2
    rep.cov["distinct_nontrivial"] = sum(1 for c in codes if sum(1 for x in c if x) >= 2 and any(x > 1 for x in c))
    rep.cov["rule"] = ("bar files enumerated by TLC (code = one digit per candidate day); a file is non-trivial when it has at "
                       "least two rows and at least one missing cell (forward-fill matters); each file is queried with adjustment "
                       "off and on at %d instants through 7 getters" % ninst)
    rep.cov["exhaustive"] = (t == "thorough")
    rep.cov["files"] = len(codes)
    rep.sample(dict(file=describe(codes[len(codes) // 2], True, None), expected_answers_first=[
        (str(ts(k)), v) for k, v in sorted(expected[codes[len(codes) // 2]][True].items())[:6]]))
    return rep
