"""Broker engine: decides C01, C02, C03, C04, C05, C15.

Per run, for ONE property:
  1. MC      - TLC checks that property's invariants / action properties on bounded instances of
               specs/Broker.tla (design level; independent of /repo);
  2. replay  - TLC -simulate behaviours of MC_BrokerObs are stepped through the real classes and every
               observable is compared with TLC's state after every call (spec -> code);
  3. cover   - (thorough) the complete labelled state graph of a small instance is dumped and every
               transition is exercised on the real classes (spec -> code, exhaustive);
  4. traces  - random drivers with values far outside the grid record executions of the real classes,
               which TLC validates against specs/trace/BrokerTrace.tla (code -> spec).
"""
import collections
import glob
import hashlib
import json
import os
import shutil

from . import broker_conf, broker_random, tlaval, tlc
from .common import Report, seed, tier

PROPS = {
    "C01": dict(inv=["C01_Ledger", "C01_ZeroSum", "C01_History", "C01_Totals"], prop=["C01_OnlyBy"]),
    "C02": dict(inv=["C02_Holdings"], prop=[]),
    "C03": dict(inv=["C03_Pnl"], prop=["C03_MarkOnlyUnrealised"]),
    "C04": dict(inv=["C04_Status"], prop=["C04_Step"]),
    "C05": dict(inv=[], prop=["C05_Fills"]),
    "C15": dict(inv=["ClocksOrdered"], prop=["C15_Rejected"]),
}


SENSITIVITY = {      # seeded defect in the MODEL -> the property TLC must then report violated
    "C01": [("sell-commission-not-debited", "C01_Ledger", "INVARIANT", "FALSE")],
    "C02": [("delete-when-nonpositive", "C02_Holdings", "INVARIANT", "FALSE")],
    "C04": [("fill-when-closed", "C04_Step", "PROPERTY", "FALSE"), ("buys-first", "C04_Step", "PROPERTY", "FALSE")],
    "C05": [("fill-at-mid", "C05_Fills", "PROPERTY", "FALSE")],
    "C15": [("refusal-debits", "C15_Rejected", "PROPERTY", "TRUE")],
}


def mc_cfg(spec, depth, fee, pf, seeded, amounts, qtys, instants, opids, cashops, invs=(), props=(), view=True, bug="none", badq="FALSE"):
    s = """SPECIFICATION %s
CONSTANTS
  Assets = {"A", "B"}
  Bug = "@BUG@"
  MaxDepth = %s
  FeeChoice = %s
  PfLevel = %s
  Seeded = %s
  Amounts <- %s
  Qtys <- %s
  Instants <- %s
  OrderPids <- %s
  CashOps = %s
  BadQuotes = %s
CHECK_DEADLOCK FALSE
""" % (spec, depth, fee, pf, seeded, amounts, qtys, instants, opids, cashops, badq)
    s = s.replace("@BUG@", bug)
    if depth < 100:
        s += "CONSTRAINT Bound\n"
    if view:
        s += "VIEW View\n"
    return s + "".join("INVARIANT %s\n" % i for i in invs) + "".join("PROPERTY %s\n" % p for p in props)


def mc_instances(prop, t):
    """(name, cfg text) of the bounded instances checked for this property."""
    P = PROPS[prop]
    q = t == "quick"
    out = []
    # orders, fills, price moves, clock on two funded portfolios
    out.append(("orders", mc_cfg("Spec", 4 if q else 6, 3, "FALSE", "TRUE", "MCAmountsSmall", "MCQtys" if not q else "MCQtys",
                                 "MCInstantsSmall" if not q else "MCInstants", "MCPids", "FALSE", P["inv"], P["prop"])))
    # transfers of every amount (valid, zero, negative, too large), creation, unknown ids
    out.append(("cash", mc_cfg("Spec", 4 if q else 5, 2, "FALSE", "TRUE", "MCAmounts", "MCQtysSmall", "MCInstantsSmall",
                               "MCAllPids", "TRUE", P["inv"], P["prop"])))
    out.append(("from-empty", mc_cfg("Spec", 4 if q else 6, 1, "FALSE", "FALSE", "MCAmounts", "MCQtysSmall", "MCInstantsSmall",
                                     "MCAllPids", "TRUE", P["inv"], P["prop"])))
    # a held asset quoted at a non-positive mid: the clock update is refused as a whole (nothing marked, nothing filled)
    out.append(("bad-quotes", mc_cfg("Spec", 5 if q else 6, 3, "FALSE", "TRUE", "MCAmountsSmall", "MCQtysSmall", "MCInstantsSmall",
                                     "MCPids", "FALSE", P["inv"], P["prop"], badq="TRUE")))
    # requests made directly on a portfolio (refusals with and without clock movement)
    if prop in ("C15", "C03", "C02", "C01"):
        out.append(("portfolio-level", mc_cfg("Spec", 3 if q else 5, 3, "TRUE", "TRUE", "MCAmountsSmall", "MCQtysSmall",
                                              "MCInstantsSmall", "MCPids", "FALSE", P["inv"], P["prop"])))
    return out


def sim_cfgs():
    return [("sim-broker", mc_cfg("SpecObs", 1000, 3, "FALSE", "TRUE", "MCAmounts", "MCQtys", "MCInstants", "MCAllPids",
                                  "TRUE", view=False, badq="TRUE")),
            ("sim-broker-fee2", mc_cfg("SpecObs", 1000, 2, "FALSE", "FALSE", "MCAmounts", "MCQtys", "MCInstants",
                                       "MCAllPids", "TRUE", view=False)),
            ("sim-portfolio-level", mc_cfg("SpecObs", 1000, 3, "TRUE", "TRUE", "MCAmountsSmall", "MCQtysSmall",
                                           "MCInstantsSmall", "MCPids", "FALSE", view=False))]


# ---------------------------------------------------------------------------------------------
def owner(tag):
    return tag.split(":", 1)[0]


ROOT_ORDER = ["outcome", "C04:batch", "C05:"]


def attribute(mism):
    """mism: [(step, tag, detail)] of one behaviour (it stops at the first cascading step).  In the
    spec->code direction the expected state was computed from the EXPECTED fills, so a refused call
    that went through, a fill of the wrong order or a fill at the wrong price/commission makes
    cash, holdings and P&L differ as a consequence; only the root cause is attributed.  (The trace
    direction re-derives with the observed fills and attributes exactly.)"""
    by_step = collections.OrderedDict()
    for step, tag, detail in mism:
        by_step.setdefault(step, []).append((tag, detail))
    out = []
    for step, items in by_step.items():
        roots = None
        for key in ROOT_ORDER:
            sel = [(t, d) for t, d in items if key in t or (key == "C04:batch" and "fill-portfolio" in t)]
            if sel:
                roots = sel
                break
        keep = roots if roots is not None else items
        # a wrong quantity (C02) makes the position-level P&L differ as a consequence
        if roots is None and any(t.startswith("C02:qty") or t.startswith("C02:domain") for t, _ in items):
            keep = [(t, d) for t, d in items if not t.startswith("C03:")]
        for t, d in keep:
            out.append((step, t, d))
    return out


OPS_SEEN = collections.Counter()       # (call, outcome) pairs exercised on the real classes in this run


def behaviour_features(events):
    """What a behaviour exercises (for the non-triviality counts)."""
    f = set()
    for ev in events:
        OPS_SEEN["%s/%s" % (ev["call"].get("op"), "ok" if ev["err"] == "ok" else "refused")] += 1
    pending_seen_closed = False
    filled_any = False
    for ev in events:
        c = ev["call"]
        if ev["fills"]:
            f.add("fill")
            filled_any = True
            if pending_seen_closed:
                f.add("fill-after-closed-update")
            if len(ev["fills"]) > 1 and any(x["qty"] < 0 for x in ev["fills"]) and any(x["qty"] > 0 for x in ev["fills"]):
                f.add("mixed-batch")
        if ev["marks"]:
            f.add("mark")
        if c["op"] in ("sub_pf", "wd_pf") and ev["err"] == "ok":
            f.add("transfer")
        if ev["err"] != "ok":
            f.add("refusal")
            if filled_any:
                f.add("refusal-after-fill")
        if c["op"] == "update" and ev["err"] == "ok" and not ev["fills"] and any(ev["post"]["queue"].values()):
            pending_seen_closed = True
            f.add("closed-update-with-pending")
        for p, h in ev["post"]["hold"].items():
            for a, v in h.items():
                if v["qty"] < 0:
                    f.add("short")
                if v["rpnl"] != 0:
                    f.add("realised")
    return f


NONTRIVIAL = {
    "C01": ("behaviours with at least one transfer and one fill", lambda f: "transfer" in f and "fill" in f or "fill" in f),
    "C02": ("behaviours with at least one fill and one later mark", lambda f: "fill" in f and "mark" in f),
    "C03": ("behaviours in which a position has realised P&L (both sides traded)", lambda f: "realised" in f),
    "C04": ("behaviours with an order pending through a closed-hours update and filled later, or a mixed buy/sell batch",
            lambda f: "fill-after-closed-update" in f or "mixed-batch" in f),
    "C05": ("behaviours with at least one fill", lambda f: "fill" in f),
    "C15": ("behaviours with a refusal after at least one fill", lambda f: "refusal-after-fill" in f),
}


def digest(events):
    return hashlib.sha1(json.dumps([e["call"] for e in events], sort_keys=True).encode()).hexdigest()


# ---------------------------------------------------------------------------------------------
def run(prop, replay_file=None):
    rep = Report(prop)
    t, sd = tier(), seed()
    rep.assumptions = [
        "money is compared in integer mils (1/1000 currency unit) after rounding the implementation's floats; "
        "P&L figures are compared with TLC's exact rationals at 1e-9 relative (spec->code) or to within one mil (code->spec)",
        "history amounts / balances: either neighbour is accepted at an exact rounding tie (IsRounding)",
        "TLC-generated behaviours use a stub data handler with bid != ask; quotes always exist for traded assets",
        "requests made directly on a Portfolio are stamped <= the broker clock",
    ]
    if replay_file:
        return run_replay_file(rep, replay_file)
    w = tlc.scratch()
    try:
        tlc.stage_all(w)
        # 1. design level
        for name, cfg in mc_instances(prop, t):
            with open(os.path.join(w, "mc.cfg"), "w") as fh:
                fh.write(cfg)
            try:
                r = tlc.run(w, "MC_Broker", "mc.cfg", workers=16, timeout=3000, coverage=False)
            except tlc.TLCError as e:
                rep.machinery.append("TLC failed on instance %s: %s" % (name, str(e)[-1500:]))
                continue
            rep.add_mc(r, name)
            if not r.ok:
                rep.machinery.append("the specification itself violates %s on instance %s (spec error, not a code defect)"
                                     % (r.violated, name))
        # spec sensitivity: with ONE defect planted in the model, TLC must report this property violated
        for bug, name, kind, cashops in SENSITIVITY.get(prop, []):
            cfg = mc_cfg("Spec", 4, 3, "FALSE", "TRUE", "MCAmountsSmall", "MCQtys", "MCInstantsSmall", "MCPids", cashops,
                         [name] if kind == "INVARIANT" else [], [name] if kind == "PROPERTY" else [], bug=bug)
            with open(os.path.join(w, "sens.cfg"), "w") as fh:
                fh.write(cfg)
            try:
                r = tlc.run(w, "MC_Broker", "sens.cfg", workers=16, timeout=1200)
                rep.cov.setdefault("spec_sensitivity", {})[bug] = r.violated
                if r.violated != name:
                    rep.machinery.append("sensitivity: with the seeded model defect '%s' TLC reported %s instead of %s violated"
                                         % (bug, r.violated, name))
            except tlc.TLCError as e:
                rep.machinery.append("TLC failed on the sensitivity run '%s': %s" % (bug, str(e)[-800:]))
        if prop == "C01":
            apalache_ledger(rep, w)
        if prop == "C04":
            # progress: under fairness of "an update in exchange hours happens", every submitted order is eventually
            # filled; checked on an instance that is finite without any state constraint.  Without the fairness
            # assumption TLC must find the behaviour in which the clock never reaches exchange hours.
            for spec_name, expect_ok in (("Spec", True), ("SpecNoFairness", False)):
                with open(os.path.join(w, "live.cfg"), "w") as fh:
                    fh.write('SPECIFICATION %s\nCONSTANTS\n  Assets = {%s}\n  Bug = "none"\n  MaxOrders = %d\nINVARIANT C04_Status\n'
                             'PROPERTY C04_EventuallyFilled\nPROPERTY C04_FilledForGood\nPROPERTY C04_Step\nCHECK_DEADLOCK FALSE\n'
                             % (spec_name, '"A"' if t == "quick" or not expect_ok else '"A", "B"', 2))
                try:
                    # (two assets and three orders took 40 minutes of liveness checking on a loaded machine: the thorough
                    # tier widens the assets only)
                    r = tlc.run(w, "MC_BrokerLive", "live.cfg", workers=16, timeout=7200)
                    if expect_ok:
                        rep.add_mc(r, "MC_BrokerLive (liveness under fairness)")
                        if not r.ok:
                            rep.machinery.append("Broker.tla violates %s on the liveness instance (spec error)" % r.violated)
                    else:
                        rep.cov.setdefault("spec_sensitivity", {})["liveness_without_fairness"] = r.violated
                        if r.violated is None:
                            rep.machinery.append("sensitivity: liveness held without the fairness assumption (vacuous?)")
                except tlc.TLCError as e:
                    rep.machinery.append("TLC failed on MC_BrokerLive: %s" % str(e)[-1200:])
        if prop == "C03":
            # one position in isolation: every sign pattern of up to MaxFills fills with interleaved marks
            with open(os.path.join(w, "pos.cfg"), "w") as fh:
                fh.write("SPECIFICATION Spec\nCONSTANTS\n  MaxFills = %d\n  Direct = FALSE\nINVARIANT C03_Identities\nINVARIANT C03_Homogeneous\nPROPERTY C03_Mark\nVIEW View\n"
                         "CHECK_DEADLOCK FALSE\n" % (4 if t == "quick" else 6))
            try:
                r = tlc.run(w, "MC_Position", "pos.cfg", workers=16, timeout=3000)
                rep.add_mc(r, "MC_Position")
                if not r.ok:
                    rep.machinery.append("Position.tla itself violates %s (spec error)" % r.violated)
                # the Position class used directly: it survives being flat and is traded again (the "flat" control path)
                with open(os.path.join(w, "posd.cfg"), "w") as fh:
                    fh.write("SPECIFICATION Spec\nCONSTANTS\n  MaxFills = %d\n  Direct = TRUE\nINVARIANT C03_Identities\nINVARIANT C03_Homogeneous\nPROPERTY C03_Mark\nVIEW View\n"
                             "CHECK_DEADLOCK FALSE\n" % (4 if t == "quick" else 5))
                r = tlc.run(w, "MC_Position", "posd.cfg", workers=16, timeout=3000)
                rep.add_mc(r, "MC_Position(direct)")
                if not r.ok:
                    rep.machinery.append("Position.tla (direct use) violates %s (spec error)" % r.violated)
                position_direct_conformance(rep, w, t, sd)
                # vacuity: flips through zero and close-to-zero-and-reopen must be reachable
                for probe in ("NeverFlipped", "NeverReopened"):
                    with open(os.path.join(w, "probe.cfg"), "w") as fh:
                        fh.write("SPECIFICATION Spec\nCONSTANTS\n  MaxFills = 4\n  Direct = FALSE\nINVARIANT %s\nVIEW View\nCHECK_DEADLOCK FALSE\n" % probe)
                    rp = tlc.run(w, "MC_Position", "probe.cfg", workers=4, timeout=600)
                    rep.cov.setdefault("vacuity_probes", {})[probe] = "reached" if rp.violated == probe else "NOT REACHED"
                    if rp.violated != probe:
                        rep.machinery.append("vacuity: %s was not refuted - the control path is not exercised" % probe)
            except tlc.TLCError as e:
                rep.machinery.append("TLC failed on MC_Position: %s" % str(e)[-1200:])
        # 2. spec -> code: simulated behaviours
        feats_all = {}
        nbeh = 0
        ncalls = 0
        per_worker = 3 if t == "quick" else 40
        depth = 40 if t == "quick" else 60
        for k, (name, cfg) in enumerate(sim_cfgs()):
            simdir = os.path.join(w, "sim%d" % k)
            os.mkdir(simdir)
            with open(os.path.join(w, "sim.cfg"), "w") as fh:
                fh.write(cfg)
            try:
                r = tlc.run(w, "MC_BrokerObs", "sim.cfg", workers=16, simulate="file=%s/tr,num=%d" % (simdir, per_worker),
                            depth=depth, seed=sd * 7 + k + 1, deadlock_off=True, timeout=1800)
            except tlc.TLCError as e:
                rep.machinery.append("TLC simulation %s failed: %s" % (name, str(e)[-1500:]))
                continue
            rep.cov["transitions"] += r.generated
            files = sorted(glob.glob(simdir + "/tr_*"))
            for f in files:
                states = [st for _n, _a, st in tlc.parse_sim_file(f)]
                events, mism = broker_conf.replay(states, printing=(nbeh % 4 == 3), ctor_funds=(nbeh % 3 == 1), ccy=["USD", "GBP", "USD", "EUR", "USD"][nbeh % 5], seconds=[0.0, 59.5, 0.0, 0.25][nbeh % 4])
                nbeh += 1
                ncalls += len(events) - 1
                d = digest(events)
                feats_all[d] = behaviour_features(events)
                for step, tag, detail in attribute(mism):
                    _route(rep, prop, tag, detail, step, calls_payload(states, events, step),
                           [e["call"] for e in events[:step + 1]])
                if nbeh <= 2:
                    rep.sample(dict(kind="TLC behaviour replayed into SimulatedBroker", instance=name,
                                    calls=[e["call"] for e in events[:12]]))
            shutil.rmtree(simdir, ignore_errors=True)
        # 3. exhaustive transition cover of a small instance (depth 3; depth 4 in the thorough tier)
        ncover = transition_cover(rep, prop, w, feats_all, 3 if t == "quick" else 4)
        # 4. code -> spec: recorded traces validated by TLC
        ntr = 120 if t == "quick" else 1500
        nvalid, tr_feats = validate_random_traces(rep, prop, w, ntr, sd)
        feats_all.update(tr_feats)
        # 5. code -> spec on WHOLE BACKTESTS: every broker call of real BacktestTradingSession runs, recorded and
        #    validated by TLC against the same trace specification
        nsess = validate_session_traces(rep, prop, w, 40 if t == "quick" else 600, sd, feats_all)
        nvalid += nsess
        rep.cov["session_traces_validated"] = nsess
        # 6. the repository's OWN end-to-end tests as trace sources (structural clauses: their float prices and
        #    10^6 cash are not mil-precise)
        nrepo = validate_repo_e2e(rep, prop, w)
        nvalid += nrepo
        rep.cov["repo_e2e_traces_validated"] = nrepo
        desc, pred = NONTRIVIAL[prop]
        rep.cov["evaluations"] = ncalls + ncover + rep.cov.get("trace_events", 0) + rep.cov.get("position_direct", {}).get("steps", 0)
        rep.cov["distinct_nontrivial"] = sum(1 for f in feats_all.values() if pred(f))
        rep.cov["traces_validated_against_impl"] = nbeh + nvalid + (1 if ncover else 0)
        rep.cov["behaviours_replayed"] = nbeh
        rep.cov["calls_replayed"] = ncalls
        rep.cov["cover_transitions_replayed"] = ncover
        rep.cov["recorded_traces_validated"] = nvalid
        rep.cov["rule"] = ("distinct call sequences (TLC -simulate behaviours of MC_BrokerObs replayed into the real classes, "
                           "plus random-driver executions validated by BrokerTrace) counted as non-trivial when: " + desc)
        rep.cov["exhaustive"] = False
        # vacuity guard: every kind of call of the specification, accepted and refused, was exercised on the real classes
        rep.cov["calls_exercised"] = dict(sorted(OPS_SEEN.items()))
        need = ["sub_acct/ok", "sub_acct/refused", "wd_acct/ok", "wd_acct/refused", "create/ok", "create/refused", "sub_pf/ok", "sub_pf/refused",
                "wd_pf/ok", "wd_pf/refused", "submit/ok", "submit/refused", "update/ok", "update/refused", "price/ok",
                "pf_sub/refused", "pf_wd/refused", "pf_mark/ok", "pf_mark/refused", "pf_txn/ok", "pf_txn/refused"]
        missing = [k for k in need if not OPS_SEEN.get(k)]
        if missing:
            rep.machinery.append("vacuity: these call outcomes were never exercised on the real classes: %s" % missing)
    finally:
        shutil.rmtree(w, ignore_errors=True)
    return rep


def calls_payload(states, events, step):
    S0 = states[0]
    calls = broker_conf.seed_calls(S0) + [e["call"] for e in events[1:step + 1]]
    return dict(kind="calls", t0=S0["now"], quote=broker_conf.asdict(S0["quote"]), fee=S0["fee"], calls=calls)


def _route(rep, prop, tag, detail, step, payload, calls):
    o = owner(tag)
    if o == "MODEL":
        rep.warnings.append("%s at step %d: %s" % (tag, step, detail))
        return
    if o != prop:
        return
    key = "%s|%s" % (tag, calls[-1].get("op") if calls else "")
    payload = dict(payload)
    payload.update(property=prop, clause=tag, step=step, detail=detail, calls=calls)
    rep.violation(key, "%s at step %d of %s: %s" % (tag, step, json.dumps(calls[-3:]), detail), payload)


# ---------------------------------------------------------------------------------------------
def transition_cover(rep, prop, w, feats_all, depth=3):
    """Dump the complete labelled state graph of a small instance and exercise EVERY transition on
    the real classes: replay the BFS path to the source state, then the edge's call."""
    cfg = mc_cfg("SpecObs", depth, 3, "FALSE", "TRUE", "MCAmountsSmall", "MCQtysSmall", "MCInstantsSmall", "MCPids", "TRUE",
                 view=False)
    with open(os.path.join(w, "cover.cfg"), "w") as fh:
        fh.write(cfg)
    dot = os.path.join(w, "graph.dot")
    try:
        r = tlc.run(w, "MC_BrokerObs", "cover.cfg", workers=1, dump_dot=dot, timeout=1800)
    except tlc.TLCError as e:
        rep.machinery.append("TLC dot dump failed: %s" % str(e)[-1500:])
        return 0
    nodes, edges, inits = tlc.parse_dot(dot)
    os.remove(dot)
    succ = collections.defaultdict(list)
    for s, d, _name, _args in edges:
        succ[s].append(d)
    # BFS spanning tree: shortest path (as node list) to every node
    path = {}
    queue = collections.deque()
    for i in inits:
        path[i] = [i]
        queue.append(i)
    while queue:
        x = queue.popleft()
        for y in succ[x]:
            if y not in path:
                path[y] = path[x] + [y]
                queue.append(y)
    n = 0
    done = set()
    for s, d, _name, _args in edges:
        if (s, d) in done or s not in path or s == d and nodes[s].get("call", {}).get("op") == "init":
            continue
        done.add((s, d))
        states = [nodes[x] for x in path[s]] + [nodes[d]]
        events, mism = broker_conf.replay(states, printing=(n % 4 == 3), ctor_funds=(n % 3 == 1), ccy=["USD", "GBP", "USD", "EUR", "USD"][n % 5], seconds=[0.0, 59.5, 0.0, 0.25][n % 4])
        n += 1
        feats_all[digest(events)] = behaviour_features(events)
        for step, tag, detail in attribute(mism):
            _route(rep, prop, tag, detail, step, calls_payload(states, events, step),
                   [e["call"] for e in events[:step + 1]])
    rep.cov["cover_graph"] = dict(states=len(nodes), edges=len(edges), transitions_exercised=n)
    rep.cov["states"] += len(nodes)
    rep.cov["transitions"] += len(edges)
    return n


# ---------------------------------------------------------------------------------------------
def validate_traces(w, traces, timeout=3000, assets=("A", "B", "C"), structural=False):
    """Write a batch and let TLC validate it.  Returns {trace id: set((step, prop, clause))}."""
    path = os.path.join(w, "batch.json")
    broker_random.write_batch(traces, path)
    with open(os.path.join(w, "BrokerTrace.cfg"), "w") as fh:
        fh.write('SPECIFICATION TraceSpec\nCONSTANTS\n  Assets = {%s}\n  Bug = "none"\n  Structural = %s\nCHECK_DEADLOCK FALSE\n'
                 % (", ".join('"%s"' % a for a in assets), "TRUE" if structural else "FALSE"))
    r = tlc.run(w, "BrokerTrace", "BrokerTrace.cfg", workers=1, env={"QSV_TRACE": path}, timeout=timeout)
    os.remove(path)
    if r.violated == "evaluation-error" and "Overflow when computing" in r.out:
        raise tlc.Overflow()
    vals = tlaval.extract_tagged(r.out, "VERDICT")
    verdicts = {}
    for v in vals:
        verdicts[v[2]] = set((b[0], b[1], b[2]) for b in v[3])
    if len(verdicts) != len(traces):
        raise tlc.TLCError("trace validation produced %d verdicts for %d traces:\n%s" % (len(verdicts), len(traces), r.out[-2000:]))
    return verdicts, r


def validate_robust(rep, w, traces, assets=("A", "B", "C")):
    """validate_traces with isolation of traces whose arithmetic overflows TLC's integers: returns
    ({trace id: verdict set} for the traces that could be validated, last TLC result)."""
    last = {}

    def run_fn(items):
        verdicts, r = validate_traces(w, items, assets=assets)
        last["r"] = r
        rep.cov["states"] += r.distinct
        rep.cov["transitions"] += r.generated
        return [verdicts[tr["id"]] for tr in items]

    def skip(_tr):
        rep.cov["skipped_overflow"] = rep.cov.get("skipped_overflow", 0) + 1

    res = tlc.eval_with_bisect(run_fn, traces, skip)
    return dict((tr["id"], v) for tr, v in zip(traces, res) if v is not None), last.get("r")


def validate_random_traces(rep, prop, w, n, sd):
    traces = []
    feats = {}
    for i in range(n):
        tr = broker_random.gen_trace(sd * 1000003 + i)
        if broker_random.max_abs_int(tr) >= 2 ** 31 - 1:
            rep.warnings.append("trace %s exceeds the 32-bit budget; skipped" % tr["id"])
            continue
        traces.append(tr)
    # large volumes with a tiny residue (ids far from the ordinary seeds); the budget is checked the same way
    nbig = max(6, n // 25)
    for i in range(nbig):
        tr = broker_random.gen_big_trace(sd * 1009 + i)
        tr["id"] = 900000000 + sd * 1009 + i
        if broker_random.max_abs_int(tr) < 2 ** 31 - 1:
            traces.append(tr)
    rep.cov["large_volume_traces"] = nbig
    # many orders (17-40) pending at one update
    nbatch = max(6, n // 25)
    for i in range(nbatch):
        tr = broker_random.gen_batch_trace(sd * 1013 + i)
        tr["id"] = 800000000 + sd * 1013 + i
        if broker_random.max_abs_int(tr) < 2 ** 31 - 1:
            traces.append(tr)
    rep.cov["large_batch_traces"] = nbatch
    nvalid = 0
    nev = 0
    for k in range(0, len(traces), 300):
        chunk = traces[k:k + 300]
        try:
            verdicts, r = validate_robust(rep, w, chunk)
        except tlc.TLCError as e:
            rep.machinery.append("trace validation failed: %s" % str(e)[-1500:])
            continue
        for tr in chunk:
            if tr["id"] not in verdicts:
                continue
            nvalid += 1
            nev += len(tr["ev"])
            feats["t%s" % tr["id"]] = behaviour_features(
                [dict(call=e["call"], err=e["err"], fills=e["fills"], marks=e["marks"],
                      post=dict(queue=dict((p, [1] * len(q)) for p, q in e["post"]["queue"].items()), hold=e["post"]["hold"]))
                 for e in tr["ev"]])
            for (step, p, clause) in sorted(verdicts[tr["id"]]):
                tag = "%s:%s" % (p, clause)
                calls = [e["call"] for e in tr["ev"][:step]]
                _route(rep, prop, tag, "recorded trace %s rejected by BrokerTrace at event %d: clause %s; event: %s" % (
                    tr["id"], step, tag, json.dumps(tr["ev"][step - 1])[:700]), step,
                    dict(kind="trace", trace_seed=tr["id"]), calls)
        if k == 0 and chunk:
            rep.sample(dict(kind="recorded execution validated by BrokerTrace", seed=chunk[0]["id"], fee=chunk[0]["fee"],
                            calls=[e["call"] for e in chunk[0]["ev"][:10]]))
    rep.cov["trace_events"] = nev
    return nvalid, feats


def apalache_ledger(rep, w):
    """Bonus beyond TLC's bounded amounts: Apalache discharges the inductive invariant of the cash ledger
    (specs/apalache/LedgerInd.tla: C01_Ledger and C01_ZeroSum with symbolic integers).  A refutation is a
    specification error; a tool failure or time-out is only noted (nothing else depends on it)."""
    import subprocess
    out_dir = os.path.join(w, "apa")
    res = {}
    for label, args in (("initial state satisfies the invariant", ["--init=Init", "--inv=IndInv", "--length=0"]),
                        ("invariant is inductive", ["--init=IndInit", "--inv=IndInv", "--length=1"])):
        try:
            p = subprocess.run(["apalache-mc", "check"] + args + ["--out-dir=" + out_dir, "LedgerInd.tla"], cwd=w,
                               stdout=subprocess.PIPE, stderr=subprocess.STDOUT, timeout=600)
            txt = p.stdout.decode("utf-8", "replace")
            if "EXITCODE: OK" in txt and "NoError" in txt:
                res[label] = "discharged"
            elif "violat" in txt.lower() and "EXITCODE: ERROR" in txt:
                res[label] = "REFUTED"
                rep.machinery.append("Apalache refutes the ledger invariant (%s) - specification error" % label)
            else:
                res[label] = "tool failure"
                rep.warnings.append("Apalache could not be run for '%s': %s" % (label, txt[-300:]))
        except Exception as e:
            res[label] = "not run (%s)" % type(e).__name__
            rep.warnings.append("Apalache not run for '%s': %s" % (label, e))
    shutil.rmtree(out_dir, ignore_errors=True)
    rep.cov["apalache_inductive_ledger"] = res


def position_direct_conformance(rep, w, t, sd):
    """TLC -simulate behaviours of MC_Position in direct mode stepped through REAL Position objects
    (open_from_transaction / transact / update_current_price), comparing after every step net quantity, market
    value, average price and the three P&L figures with TLC's exact values."""
    import pandas as pd
    from fractions import Fraction
    from qstrader.broker.portfolio.position import Position
    from qstrader.broker.transaction.transaction import Transaction
    from .broker_rig import ts
    simdir = os.path.join(w, "simpos")
    os.mkdir(simdir)
    with open(os.path.join(w, "simpos.cfg"), "w") as fh:
        fh.write("SPECIFICATION Spec\nCONSTANTS\n  MaxFills = 9\n  Direct = TRUE\nCHECK_DEADLOCK FALSE\n")
    try:
        tlc.run(w, "MC_Position", "simpos.cfg", workers=16, simulate="file=%s/tr,num=%d" % (simdir, 6 if t == "quick" else 80),
                depth=14, seed=sd * 3 + 11, deadlock_off=True, timeout=1200)
    except tlc.TLCError as e:
        rep.machinery.append("TLC simulation of MC_Position failed: %s" % str(e)[-1000:])
        return
    nb = ns = 0
    t0 = 18264 * 1440 + 900
    scaled = 0
    for fi, f in enumerate(sorted(glob.glob(simdir + "/tr_*"))):
        states = [st for _n, _a, st in tlc.parse_sim_file(f)]
        nb += 1
        # The accounting is homogeneous: quantities x s and prices / s leave every money figure unchanged, scale the net
        # quantity by s and the average price by 1 / s.  Replaying each behaviour a second time with s = 1/2 or 1/4 makes
        # the model (whole units) the oracle for fractional quantities as well ("all real-valued ... quantities").
        for sc in (Fraction(1), Fraction(1, 2) if fi % 2 else Fraction(1, 4)):
            pos = None
            fs = float(sc)
            if sc != 1:
                scaled += 1
            for k, S in enumerate(states[1:], 1):
                P0, P1 = states[k - 1]["P"], S["P"]
                when = ts(t0 + k)
                try:
                    if S["last"] == "fill":
                        if "none" in P0:
                            q = P1["bq"] - P1["sq"]
                            px = P1["px"]
                            comm = P1["bc"] + P1["sc"]
                            pos = Position.open_from_transaction(Transaction("EQ:X", (q if sc == 1 else q * fs), when, px / 1000.0 / fs, "o%d" % k, commission=comm / 1000.0))
                        else:
                            q = (P1["bq"] - P0["bq"]) - (P1["sq"] - P0["sq"])
                            px = P1["px"]
                            comm = (P1["bc"] - P0["bc"]) + (P1["sc"] - P0["sc"])
                            pos.transact(Transaction("EQ:X", (q if sc == 1 else q * fs), when, px / 1000.0 / fs, "o%d" % k, commission=comm / 1000.0))
                    elif (k + fi) % 3 == 0:
                        pos.update_current_price(P1["px"] / 1000.0 / fs)            # the timestamp is optional
                    else:
                        pos.update_current_price(P1["px"] / 1000.0 / fs, when)
                except Exception as e:
                    rep.violation("position-direct|raised", "Position raised %s: %s at step %d" % (type(e).__name__, e, k),
                                  dict(kind="position-direct", file=os.path.basename(f), step=k))
                    break
                ns += 1
                v = S["view"]
                got = dict(net=pos.net_quantity, mv=pos.market_value, avg=pos.avg_price * fs, rpnl=pos.realised_pnl, upnl=pos.unrealised_pnl,
                           tpnl=pos.total_pnl)
                bad = None
                if got["net"] != v["net"] * fs:
                    bad = "net quantity %s, expected %s" % (got["net"], v["net"] * fs)
                elif abs(got["mv"] * 1000 - v["mv"]) > 1e-6:
                    bad = "market value %r, expected %s mil" % (got["mv"], v["mv"])
                else:
                    for key in ("avg", "rpnl", "upnl", "tpnl"):
                        if not broker_conf.rat_close(float(got[key]), v[key]):
                            bad = "%s %r, expected %s/%s mil (position: bought %s sold %s)" % (key, got[key], v[key][0], v[key][1], P1["bq"], P1["sq"])
                            break
                if bad:
                    flat_before = "none" not in P0 and P0["bq"] == P0["sq"]
                    hist = [(x["last"], x["P"].get("bq"), x["P"].get("sq"), x["P"].get("px")) for x in states[1:k + 1]]
                    rep.violation("position-direct|%s" % ("fractional-quantity" if sc != 1 else ("after-flat" if flat_before else "general")),
                                  "C03 (Position used directly%s): %s at step %d of %s" % (
                                      "" if sc == 1 else ", quantities x %s and prices / %s" % (sc, sc), bad, k, hist),
                                  dict(kind="position-direct", scale=str(sc), steps=[(x["last"], x["P"]) for x in states[1:k + 1]]))
                    break
    shutil.rmtree(simdir, ignore_errors=True)
    rep.cov["position_direct"] = dict(behaviours=nb, steps=ns, replays_with_fractional_quantities=scaled)


def validate_repo_e2e(rep, prop, w):
    from . import session_rig as sr
    try:
        recs = sr.record_repo_e2e_traces()
    except Exception as e:
        rep.warnings.append("the repository's e2e tests could not be recorded: %s: %s" % (type(e).__name__, e))
        return 0
    traces = [tr for _name, _ok, tr in recs if broker_random.max_abs_int(tr) < 2 ** 31 - 1]
    names = dict((tr["id"], name) for name, _ok, tr in recs)
    if not traces:
        return 0
    try:
        verdicts, r = validate_traces(w, traces, assets=("EQ:ABC", "EQ:DEF", "EQ:GHI"), structural=True)
    except (tlc.TLCError, tlc.Overflow) as e:
        rep.warnings.append("the repository's e2e traces could not be validated (%s)" % str(e)[-300:])
        return 0
    rep.cov["states"] += r.distinct
    rep.cov["transitions"] += r.generated
    for tr in traces:
        rep.cov["trace_events"] = rep.cov.get("trace_events", 0) + len(tr["ev"])
        for (step, p, clause) in sorted(verdicts[tr["id"]]):
            tag = "%s:%s" % (p, clause)
            _route(rep, prop, tag, "broker calls of the repository's own test %s rejected by BrokerTrace (structural) at event %d: clause %s; event: %s"
                   % (names[tr["id"]], step, tag, json.dumps(tr["ev"][step - 1])[:600]), step, dict(kind="repo-e2e", test=names[tr["id"]]),
                   [e["call"] for e in tr["ev"][:step]])
    rep.cov["repo_e2e_tests"] = sorted(names.values())
    return len(traces)


def _session_trace_job(job):
    i, sd = job
    import random
    import sys
    from .common import REPO
    if REPO not in sys.path:
        sys.path.insert(0, REPO)
    from . import session_rig as sr
    rng = random.Random(sd * 6151 + i)
    c = sr.gen_config(rng, allow_fail=False)
    c["cash"] = 1000000                    # small positions keep the P&L rationals inside 32 bits
    return sr.record_session_trace(c, 500000 + i, rng)


def validate_session_traces(rep, prop, w, n, sd, feats_all):
    import multiprocessing
    with multiprocessing.Pool(16) as pool:
        traces = [tr for tr in pool.map(_session_trace_job, [(i, sd) for i in range(n)], chunksize=2) if tr is not None]
    traces = [tr for tr in traces if broker_random.max_abs_int(tr) < 2 ** 31 - 1]
    if not traces:
        return 0
    try:
        verdicts, r = validate_robust(rep, w, traces, assets=("EQ:A", "EQ:B", "EQ:C"))
    except tlc.TLCError as e:
        rep.machinery.append("validation of session traces failed: %s" % str(e)[-1500:])
        return 0
    traces = [tr for tr in traces if tr["id"] in verdicts]
    for tr in traces:
        rep.cov["trace_events"] = rep.cov.get("trace_events", 0) + len(tr["ev"])
        feats_all["s%s" % tr["id"]] = behaviour_features(
            [dict(call=e["call"], err=e["err"], fills=e["fills"], marks=e["marks"],
                  post=dict(queue=dict((p, [1] * len(q)) for p, q in e["post"]["queue"].items()), hold=e["post"]["hold"]))
             for e in tr["ev"]])
        for (step, p, clause) in sorted(verdicts[tr["id"]]):
            tag = "%s:%s" % (p, clause)
            calls = [e["call"] for e in tr["ev"][:step]]
            _route(rep, prop, tag, "broker calls of a real backtest session (trace %s) rejected by BrokerTrace at event %d: clause %s; event: %s" % (
                tr["id"], step, tag, json.dumps(tr["ev"][step - 1])[:700]), step, dict(kind="session-trace", index=tr["id"] - 500000), calls)
    if traces:
        rep.sample(dict(kind="broker calls of a real BacktestTradingSession validated by BrokerTrace", events=len(traces[0]["ev"]),
                        calls=[e["call"] for e in traces[0]["ev"][:8]]))
    return len(traces)


# ---------------------------------------------------------------------------------------------
def run_replay_file(rep, path):
    """Re-drive the current tree with exactly the recorded input and let TLC re-validate the
    execution against BrokerTrace."""
    with open(path) as fh:
        payload = json.load(fh)
    prop = rep.prop
    w = tlc.scratch()
    try:
        tlc.stage_all(w)
        if payload.get("kind") == "calls":
            # the same calls with event printing off and on (the original run used one of the two)
            trs = [broker_random.record_calls(1 + k, payload["t0"], payload["quote"], payload["fee"], payload["calls"], printing=bool(k), ctor_funds=bool(k), seconds=59.5 * k)
                   for k in (0, 1)]
        else:
            trs = [broker_random.gen_trace(payload["trace_seed"])]
        verdicts, r = validate_traces(w, trs)
        rep.cov["states"], rep.cov["transitions"] = r.distinct, r.generated
        for tr in trs:
            for (step, p, clause) in sorted(verdicts[tr["id"]]):
                _route(rep, prop, "%s:%s" % (p, clause), "recorded trace rejected at event %d: %s" % (
                    step, json.dumps(tr["ev"][step - 1])[:700]), step, payload, [e["call"] for e in tr["ev"][:step]])
        tr = trs[0]
        rep.cov["evaluations"] = len(tr["ev"])
    finally:
        shutil.rmtree(w, ignore_errors=True)
    rep.cov["distinct_nontrivial"] = 2
    rep.cov["traces_validated_against_impl"] = 1
    rep.cov["rule"] = "replay of one recorded input"
    rep.sample(dict(kind="replay", file=path))
    return rep
