"""Backtest configurations: random generation on the exact dyadic grid, rendering as TLA+ cases for
specs/Session.tla, materialisation as CSV files + real qstrader objects, and running the REAL
BacktestTradingSession while recording (from outside) fills, allocation records and failures."""
import os
import random
import shutil
import tempfile
from fractions import Fraction

from .broker_rig import EPOCH, Observer, minutes, mil, ts

ASSETS = ["A", "B", "C"]
SYM = dict((a, "EQ:" + a) for a in ASSETS + ["D", "E", "QQ", "ZYX"])      # the extra names: implementation-vs-implementation runs only
WD = ["MON", "TUE", "WED", "THU", "FRI"]
PRICE_LEVELS = [8000, 10000, 12500, 16000]
ZERO_LIT = -1                  # in a market written by write_market: the cell holds a literal 0.0 (0 itself means: blank)


def is_bday(d):
    return (d + 3) % 7 <= 4


def bdays(d0, d1):
    return [d for d in range(d0, d1 + 1) if is_bday(d)]


def gen_config(rng, alpha_kinds=("fixed", "single"), allow_fail=True):
    """One configuration (plain dict, JSON-able)."""
    d0 = rng.choice([18267, 18267, 18269, 18288, 18289, 18290, 18293, 18317, 18271, 18292, 18270,
                     18449, 18451, 18473, 18474, 18456])   # + Mon Jul 6, Wed Jul 8, Thu Jul 30, Fri Jul 31 (month end), Mon Jul 13 2020 (summer time in New York)
    _unused = None   # Jan 6, 8, 27-29, Feb 1 (Sat), Feb 25, Fri Jan 10, Fri Jan 31 (month end), Thu Jan 9 2020
    nb = rng.randint(3, 11)
    d1 = d0
    while len(bdays(d0, d1)) < nb:
        d1 += 1
    d1 += rng.choice([0, 0, 1, 2])
    start = d0 * 1440 + rng.choice([0, 0, 870])
    end = d1 * 1440 + 1439
    days = bdays(d0 - 3, d1)
    sched = rng.choice(["weekly", "weekly", "daily", "eom", "bah"])
    if sched == "bah" and start % 1440 != 870:
        start = d0 * 1440 + 870            # buy-and-hold with a 14:30 start so that its instant is a clock event
    cfg = dict(start=start, end=end, sched=sched, wd=rng.randrange(5))
    kind = cfg["kind"] = rng.choice(["dw", "ls"])
    cfg["par"] = rng.choice(["0", "1/4", "1/2", "1/8"]) if kind == "dw" else rng.choice(["1/2", "1", "2"])
    cfg["fee"] = rng.choice([dict(kind="zero", c=0, t=0), dict(kind="percent", c=125, t=0), dict(kind="percent", c=125, t=125),
                             dict(kind="percent", c=0, t=250)])
    cfg["cash"] = rng.choice([1000000, 1234750, 4096000])
    n_assets = rng.choice([1, 2, 2, 3, 3])
    assets = sorted(rng.sample(ASSETS, n_assets))
    alpha = cfg["alpha"] = rng.choice(list(alpha_kinds))
    closes = [d * 1440 + 1260 for d in bdays(d0, d1)]
    # burn-in: none / before everything / exactly a close / one minute after a close / after the end
    k = rng.random()
    if k < 0.45:
        cfg["burn"] = -1
    elif k < 0.55:
        cfg["burn"] = start - rng.choice([0, 1440])
    elif k < 0.75:
        cfg["burn"] = rng.choice(closes)
    elif k < 0.95:
        cfg["burn"] = rng.choice(closes) + 1
    else:
        cfg["burn"] = end + 1
    # universe / alpha
    entry = {}
    late_data = {}
    if alpha == "topn":
        # signal-driven: the repository's TopNMomentumAlphaModel over a momentum signal; long-only, data from the
        # entry day on, at most ... N in {1, 2} keeps the weights 1/N dyadic
        cfg["lookback"] = rng.choice([1, 2, 3])
        cfg["topn"] = rng.choice([1, 2])
        cfg["kind"], cfg["par"] = "dw", rng.choice(["0", "1/8", "1/4"])
        kind = "dw"
        cfg["weights"] = {}
        for a in assets:
            k = rng.random()
            if k < 0.55:
                entry[a] = 0
            elif k < 0.8:
                entry[a] = rng.choice(closes)
            elif k < 0.92:
                entry[a] = rng.choice(closes) + 1
            else:
                entry[a] = -1
            if entry[a] > start:
                late_data[a] = entry[a] // 1440
        if not any(e == 0 for e in entry.values()):
            entry[assets[0]] = 0
            late_data.pop(assets[0], None)
    elif alpha == "fixed":
        for a in assets:
            entry[a] = 0
        keys = [a for a in assets if rng.random() < 0.85] or assets[:1]
        if allow_fail and rng.random() < 0.05:
            extra = [a for a in ASSETS if a not in assets]
            if extra:
                keys.append(extra[0])              # a weight for an asset that has no data at all -> the run must fail
        cfg["weights"] = _weights(rng, keys, kind)
    else:
        cfg["weights"] = {}
        for a in assets:
            k = rng.random()
            if k < 0.35:
                entry[a] = 0
            elif k < 0.5:
                entry[a] = start - 1440 * 30
            elif k < 0.7:
                entry[a] = rng.choice(closes)                  # exactly a (possible) rebalance instant: inclusive
            elif k < 0.85:
                entry[a] = rng.choice(closes) + 1              # one minute after it
            elif k < 0.93:
                entry[a] = end + 1440
            else:
                entry[a] = -1
            if entry[a] > start and rng.random() < 0.5:
                late_data[a] = entry[a] // 1440                 # data start on the entry day
        if not any(e == 0 or (0 < e) for e in entry.values()):
            entry[assets[0]] = 0
        members = [a for a in assets if entry[a] != -1 and entry[a] <= end]
        if len(members) == 3:
            # three equal weights are 1/3 each: not on the dyadic grid (a float floor may fall one short exactly
            # where the exact quotient is whole - the Sizer engine's boundary relation covers that, not this engine)
            entry[rng.choice(members)] = rng.choice([-1, end + 1440])
    cfg["entry"] = entry
    # market
    market = {}
    for a in assets:
        first = late_data.get(a, days[0])
        if alpha == "fixed" and allow_fail and rng.random() < 0.04:
            first = rng.choice(days[len(days) // 2:])           # data start late although the asset is weighted: may fail
        bars = {}
        for d in days:
            if d < first:
                continue
            if rng.random() < 0.08 and d != first:
                continue                                        # a missing day (gap)
            o = rng.choice(PRICE_LEVELS)
            c = rng.choice(PRICE_LEVELS)
            if rng.random() < 0.05 and not (alpha == "topn" and d == first):
                o = 0                                           # a missing cell (also on the very first bar)
            if rng.random() < 0.05 and not (alpha == "topn" and d == first):
                c = 0
            bars[d] = [o, c]
        if bars:
            market[a] = bars          # an asset without any bar has NO file (a header-only CSV is outside the properties)
    cfg["market"] = market
    cfg["assets"] = assets
    # (no risk model in session configurations: BacktestTradingSession hands its risk_model to QuantTradingSystem
    # positionally, where it lands in *args and is ignored - see DESIGN section 7, observations; the risk-model hook
    # is exercised on the PortfolioConstructionModel directly by the Pcm engine)
    cfg["risk"], cfg["rset"] = "none", []
    # the data handler the session builds itself from QSTRADER_CSV_DATA_DIR (whole directory) instead of a supplied one
    cfg["default_dh"] = alpha in ("fixed", "single") and rng.random() < 0.2
    # the library prints every event by default; a quarter of the configurations run with printing ON (output discarded)
    cfg["printing"] = rng.random() < 0.25
    # a sixth of the configurations: an account so small that a weighted asset's share buys less than one unit at the
    # dearer price levels - a held asset whose target becomes ZERO UNITS (not zero weight) has to be sold.  Chosen from
    # the configuration's own content, so that the stream of random draws (and with it every other configuration) stays as it was.
    import json
    import zlib
    h = zlib.crc32(json.dumps(cfg, sort_keys=True).encode())
    if h % 6 == 0:
        cfg["cash"] = [40000, 64000, 100000][(h // 6) % 3]
    # a seventh of the January configurations are moved two weeks back, into the turn of the year: Wednesday 25 December
    # 2019 and Wednesday 1 January 2020 are business days like any other for the clock, the schedules, the exchange and
    # the bar files (the library knows no holidays)
    if h % 7 == 3 and cfg["start"] // 1440 < 18300:
        shift_config(cfg, -14)
    return cfg


def shift_config(c, days):
    """The same configuration `days` (a multiple of 7: weekdays are kept) later or earlier."""
    assert days % 7 == 0
    m = days * 1440
    c["start"] += m
    c["end"] += m
    if c["burn"] != -1:
        c["burn"] += m
    c["entry"] = dict((a, (e + m if e > 0 else e)) for a, e in c["entry"].items())
    c["market"] = dict((a, dict((int(d) + days, v) for d, v in bars.items())) for a, bars in c["market"].items())
    return c


def add_exit(c, rng):
    """Let one member of a universe-driven configuration LEAVE the universe at (or a minute after) a close: whatever is held
    of it is sold at the next rebalance, and from the rebalance after that it is in no allocation record at all."""
    if c["alpha"] != "single" or c.get("default_dh"):
        return False
    members = [a for a, e in c["entry"].items() if e != -1 and e <= c["end"]]
    if len(members) < 2:
        return False
    a = rng.choice(sorted(members))
    lo = max(c["entry"][a], c["start"])
    closes = [d * 1440 + 1260 for d in bdays(c["start"] // 1440, c["end"] // 1440) if d * 1440 + 1260 > lo]
    if len(closes) < 2:
        return False
    c["exit"] = {a: rng.choice(closes[:-1]) + rng.choice([0, 1])}
    return True


def gen_zero_units_config(rng):
    """A daily fixed-weight backtest on an account so small, with closes alternating between the cheapest and the dearest
    level, that a weighted asset's target goes 1 unit -> 0 units -> 1 unit: a holding whose target is ZERO UNITS at a
    non-zero weight has to be sold like any other."""
    while True:
        c = gen_config(rng, alpha_kinds=("fixed",), allow_fail=False)
        if c["sched"] == "daily" and len(c["weights"]) >= 2 and c["market"] and c["burn"] == -1:
            break
    c["cash"] = rng.choice([40000, 64000])
    c["default_dh"] = False
    phase = dict((a, rng.randrange(2)) for a in c["market"])
    for a, bars in c["market"].items():
        for d in bars:
            cl = [8000, 16000][(int(d) + phase[a]) % 2] if rng.random() < 0.85 else rng.choice(PRICE_LEVELS)
            bars[d] = [rng.choice([8000, 10000]) if bars[d][0] else 0, cl if bars[d][1] else 0]
    return c


def _weights(rng, keys, kind):
    for _ in range(200):
        w = dict((a, rng.choice([0, 1, 1, 2, 3, 4, 5]) * (rng.choice([-1, 1, 1]) if kind == "ls" else 1)) for a in keys)
        g = sum(abs(v) for v in w.values())
        if g and g & (g - 1) == 0:
            return w
    return dict((a, 1 if i == 0 else 0) for i, a in enumerate(keys))


# ---------------------------------------------------------------------------------------------
def cfg_tla(c):
    def fn(d, f, q=True):
        if not d:
            return "<<>>"
        return "(" + " @@ ".join(('"%s"' % k if q else str(k)) + " :> " + f(v) for k, v in sorted(d.items())) + ")"
    par = Fraction(c["par"])
    market = fn(c["market"], lambda bars: fn(dict((int(d), v) for d, v in bars.items()), lambda oc: "<<%d, %d>>" % tuple(oc), q=False))
    return ('[start |-> %d, end |-> %d, burn |-> %d, sched |-> "%s", wd |-> %d, kind |-> "%s", par |-> <<%d, %d>>, '
            'fee |-> [kind |-> "%s", c |-> %d, t |-> %d], cash |-> %d, alpha |-> "%s", weights |-> %s, entry |-> %s, market |-> %s, '
            'lookback |-> %d, topn |-> %d, risk |-> "%s", rset |-> {%s}%s]'
            % (c["start"], c["end"], c["burn"], c["sched"], c["wd"], c["kind"], par.numerator, par.denominator,
               c["fee"]["kind"], c["fee"]["c"], c["fee"]["t"], c["cash"], c["alpha"], fn(c["weights"], str), fn(c["entry"], str), market,
               c.get("lookback", 0), c.get("topn", 1), c.get("risk", "none"), ", ".join('"%s"' % a for a in c.get("rset", [])),
               (", exit |-> " + fn(c["exit"], str)) if c.get("exit") else ""))


def cases_module(cfgs):
    return "---- MODULE SessionCases ----\nEXTENDS Integers, TLC\nCaseList == <<\n%s\n>>\n====\n" % ",\n".join(cfg_tla(c) for c in cfgs)


# ---------------------------------------------------------------------------------------------
def write_market(dirpath, market, rng=None, adj=None, intfmt=False):
    """CSV files (rows shuffled when rng is given).  Adj Close = Close, so adjusted = raw prices, unless `adj`
    (asset -> day -> adjusted close in mils, 0 = blank cell) says otherwise (two-world runs only: the model is not involved)."""
    import pandas as pd
    for a, bars in market.items():
        adjmap = (adj or {}).get(a, {})
        rows = sorted((int(d), oc) for d, oc in bars.items())
        if rng is not None:
            rng.shuffle(rows)
        cols = ["Date", "Open", "High", "Low", "Close", "Adj Close", "Volume"]
        if rng is not None and rng.random() < 0.5:
            rng.shuffle(cols)                   # columns are found by name
        with open(os.path.join(dirpath, a + ".csv"), "w") as fh:
            fh.write(",".join(cols) + "\n")
            for d, (o, c) in rows:
                date = (EPOCH + pd.Timedelta(days=d)).strftime("%Y-%m-%d")
                # intfmt: whole numbers are written the way many vendors write them, without a decimal point ("16", not "16.0")
                # (0 = a blank cell; ZERO_LIT = a literal 0.0; a negative number is written as it is: corrupt ticks - two-world runs only)
                f = lambda x: "" if x == 0 else ("0.0" if x == ZERO_LIT else (str(x // 1000) if intfmt and x % 1000 == 0 and x > 0 else repr(x / 1000.0)))
                cell = {"Date": date, "Open": f(o), "High": f(99000), "Low": f(1000), "Close": f(c), "Adj Close": f(adjmap.get(str(d), c)), "Volume": "1000"}
                fh.write(",".join(cell[k] for k in cols) + "\n")


def fx(v):
    """float -> exact Fraction; NaN / inf stay recognisable (and compare equal to themselves)."""
    v = float(v)
    if v != v:
        return "nan"
    if v in (float("inf"), float("-inf")):
        return "inf" if v > 0 else "-inf"
    return Fraction(v)


class Outcome(object):
    def __init__(self):
        self.failure = None      # (class name, event time in minutes) or None
        self.curve = []          # [(t, Fraction equity)]
        self.allocs = []         # [(t, {asset: float weight})]
        self.fills = []          # [(t, asset, qty, Fraction px, Fraction comm)]
        self.cash = None
        self.holdings = {}
        self.pcm_calls = []      # instants at which portfolio construction ran
        self.equity_df_dates = None
        self.alloc_df = None
        self.extra = {}


class EventClock(object):
    """Wraps a session's simulation engine (an iterable of events) and remembers the time of the event being processed:
    a failure is dated by the EVENT during which it was raised (the broker's own clock does not move when it refuses an update)."""
    def __init__(self, inner):
        self._inner = inner
        self.last = None

    def __iter__(self):
        for ev in self._inner:
            self.last = ev.ts
            yield ev

    def __getattr__(self, name):
        return getattr(self._inner, name)


class _Null(object):
    def write(self, _s):
        return 0

    def flush(self):
        pass


class quiet(object):
    """Discard what the library prints while a configuration with printing ON runs; printing is OFF again afterwards."""
    def __init__(self, c):
        self.on = bool(c.get("printing"))

    def __enter__(self):
        import sys
        self.saved = sys.stdout
        if self.on:
            sys.stdout = _Null()
        return self

    def __exit__(self, *a):
        import sys
        from qstrader import settings
        sys.stdout = self.saved
        settings.set_print_events(False)
        return False


def build_session(c, csv_dir, signals_factory=None, alpha_factory=None, data_sources=None, data_handler=None):
    """The real objects for configuration c (what the constructors print is discarded)."""
    import sys
    saved = sys.stdout
    if c.get("printing"):
        sys.stdout = _Null()
    try:
        return _build_session(c, csv_dir, signals_factory, alpha_factory, data_sources, data_handler)
    finally:
        sys.stdout = saved


def _build_session(c, csv_dir, signals_factory=None, alpha_factory=None, data_sources=None, data_handler=None):
    """The real objects for configuration c.  Returns the BacktestTradingSession."""
    from qstrader import settings
    settings.set_print_events(bool(c.get("printing")))
    from qstrader.alpha_model.fixed_signals import FixedSignalsAlphaModel
    from qstrader.alpha_model.single_signal import SingleSignalAlphaModel
    from qstrader.asset.equity import Equity
    from qstrader.asset.universe.dynamic import DynamicUniverse
    from qstrader.asset.universe.static import StaticUniverse
    from qstrader.broker.fee_model.percent_fee_model import PercentFeeModel
    from qstrader.broker.fee_model.zero_fee_model import ZeroFeeModel
    from qstrader.data.backtest_data_handler import BacktestDataHandler
    from qstrader.data.daily_bar_csv import CSVDailyBarDataSource
    from qstrader.trading.backtest import BacktestTradingSession
    entry = c["entry"]
    if all(e == 0 for e in entry.values()) and not c.get("exit"):
        universe = StaticUniverse([SYM[a] for a in sorted(entry)])
    elif c.get("exit"):
        from qstrader.asset.universe.universe import Universe

        class _LeavingUniverse(Universe):
            """A user-defined universe whose members can leave: member from the entry instant up to, not including, the exit instant."""
            def __init__(self, spans):
                self.spans = spans

            def get_assets(self, dt):
                return [a for a, (t_in, t_out) in self.spans if t_in is not None and dt >= t_in and (t_out is None or dt < t_out)]
        universe = _LeavingUniverse([(SYM[a], ((None if e == -1 else (ts(c["start"]) if e == 0 else ts(e))),
                                               (ts(c["exit"][a]) if c["exit"].get(a) else None))) for a, e in sorted(entry.items())])
    else:
        import pandas as pd
        nodate = None if (c["start"] // 1440) % 2 == 0 else pd.NaT          # "no entry date": None, or pandas' missing date
        universe = DynamicUniverse(dict((SYM[a], (nodate if e == -1 else (ts(c["start"]) if e == 0 else ts(e))))
                                        for a, e in sorted(entry.items())))
    given_sources = data_sources
    if data_sources is None:
        syms = sorted(c["market"])
        if c.get("unadjusted"):
            data_sources = [CSVDailyBarDataSource(csv_dir, Equity, csv_symbols=syms, adjust_prices=False)]
        else:
            data_sources = [CSVDailyBarDataSource(csv_dir, Equity, csv_symbols=syms)]
    dh = data_handler if data_handler is not None else BacktestDataHandler(universe, data_sources=data_sources)
    if c["alpha"] == "topn" and signals_factory is None and alpha_factory is None:
        from qstrader.signals.momentum import MomentumSignal
        from qstrader.signals.signals_collection import SignalsCollection
        import importlib.util
        from .common import REPO
        spec = importlib.util.spec_from_file_location("qsv_momentum_taa", os.path.join(REPO, "examples", "momentum_taa.py"))
        mod = importlib.util.module_from_spec(spec)
        spec.loader.exec_module(mod)
        L, N = c["lookback"], c["topn"]
        signals_factory = lambda start, uni, handler: SignalsCollection({"momentum": MomentumSignal(start, uni, lookbacks=[L])}, handler)
        alpha_factory = lambda sig, uni, handler: mod.TopNMomentumAlphaModel(sig, L, N, uni, handler)
    signals = signals_factory(ts(c["start"]), universe, dh) if signals_factory else None
    if alpha_factory is not None:
        alpha = alpha_factory(signals, universe, dh)
    elif c["alpha"] == "fixed":
        alpha = FixedSignalsAlphaModel(dict((SYM[a], float(w)) for a, w in c["weights"].items()))
    else:
        alpha = SingleSignalAlphaModel(universe, signal=1.0)
    fee = ZeroFeeModel() if c["fee"]["kind"] == "zero" else PercentFeeModel(commission_pct=c["fee"]["c"] / 1000.0,
                                                                             tax_pct=c["fee"]["t"] / 1000.0)
    kw = {}
    if c["sched"] == "weekly":
        kw["rebalance_weekday"] = WD[c["wd"]]
    if c["kind"] == "dw":
        kw["cash_buffer_percentage"] = float(Fraction(c["par"]))
    else:
        kw["gross_leverage"] = float(Fraction(c["par"]))
    risk_model = None
    if c.get("risk", "none") != "none":
        from qstrader.risk_model.risk_model import RiskModel
        kind_r, rset = c["risk"], set(SYM[a] for a in c["rset"])

        class _Risk(RiskModel):
            def __call__(self, dt, weights):
                if kind_r == "zero":
                    return dict((a, (0.0 if a in rset else w)) for a, w in weights.items())
                return dict((a, w) for a, w in weights.items() if a not in rset)
        risk_model = _Risk()
    if c.get("default_dh") and given_sources is None and signals is None and alpha_factory is None:
        os.environ["QSTRADER_CSV_DATA_DIR"] = csv_dir
        dh = None
    sess = BacktestTradingSession(
        ts(c["start"]), ts(c["end"]), universe, alpha, risk_model=risk_model, signals=signals, initial_cash=c["cash"] / 1000.0,
        rebalance={"weekly": "weekly", "daily": "daily", "eom": "end_of_month", "bah": "buy_and_hold"}[c["sched"]],
        long_only=(c["kind"] == "dw"), fee_model=fee, burn_in_dt=(None if c["burn"] == -1 else ts(c["burn"])),
        data_handler=dh, **kw)
    if c.get("split_orders"):
        # a user-supplied execution algorithm (public extension point): every rebalance order is sent as two child orders
        # of unequal size, so that one update fills several orders on the same side of the same asset
        from qstrader.execution.execution_algo.execution_algo import ExecutionAlgorithm
        from qstrader.execution.order import Order

        class _Split(ExecutionAlgorithm):
            def __call__(self, dt, initial_orders):
                out = []
                for o in initial_orders:
                    q = int(o.quantity)
                    a = q // 3
                    out.extend([Order(dt, o.asset, x) for x in (a, q - a) if x != 0])
                return out
        sess.qts.execution_handler.execution_algo = _Split()
    return sess


class _PcmProxy(object):
    """Stands in for session.qts.portfolio_construction_model: records when construction runs and
    what it appended to the allocation records, also when sizing raises."""

    def __init__(self, real, outcome, session=None, peek=False):
        self.real, self.outcome, self.session, self.peek = real, outcome, session, peek

    def __call__(self, dt, stats=None):
        self.outcome.pcm_calls.append(minutes(dt))
        if self.peek and self.session is not None:
            # what a user's model holding a reference to the session may do at any rebalance: READ the results so far
            # through the public getters - reading is not allowed to change what the run reports at the end (seed C14-a14)
            for getter in (self.session.get_equity_curve, self.session.get_target_allocations):
                try:
                    getter()
                except Exception:
                    pass                 # frames of an empty history may not exist yet
        n0 = len(stats["target_allocations"]) if stats is not None else 0
        try:
            return self.real(dt, stats=stats)
        finally:
            if stats is not None:
                for rec in stats["target_allocations"][n0:]:
                    rec = dict(rec)
                    d = rec.pop("Date")
                    self.outcome.allocs.append((minutes(d), rec))

    def __getattr__(self, name):
        return getattr(self.real, name)


def run_real(c, rng=None, signals_factory=None, alpha_factory=None, csv_dir=None, keep_session=False):
    """Run the real session for configuration c; returns Outcome."""
    own = csv_dir is None
    if own:
        csv_dir = tempfile.mkdtemp(prefix="qsv-sess-")
        write_market(csv_dir, c["market"], rng, adj=c.get("adj"), intfmt=bool(c.get("intfmt")))
    out = Outcome()
    ob = Observer()
    try:
        with ob.installed():
            try:
                sess = build_session(c, csv_dir, signals_factory, alpha_factory)
            except Exception as e:
                out.failure = (type(e).__name__, -1)
                out.extra["construction_error"] = str(e)[:300]
                return out
            peek = (c["start"] // 1440 + c["end"] // 1440 + len(c["market"])) % 3 == 0     # a third of the configurations
            sess.qts.portfolio_construction_model = _PcmProxy(sess.qts.portfolio_construction_model, out, sess, peek)
            sess.sim_engine = EventClock(sess.sim_engine)
            try:
                with quiet(c):
                    sess.run(results=False)
            except Exception as e:
                out.failure = (type(e).__name__, minutes(sess.sim_engine.last if sess.sim_engine.last is not None else sess.broker.current_dt))
                out.extra["message"] = str(e)[:300]
            _marks, fills = ob.take()
        out.curve = [(minutes(t), fx(v)) for t, v in sess.equity_curve]
        out.fills = [(minutes(f["t"]), f["asset"], int(f["qty"]), fx(f["px"]), fx(f["comm"])) for f in fills]
        pf = sess.broker.portfolios[sess.portfolio_id]
        out.cash = fx(pf.cash)
        if all(e == 0 for e in c["entry"].values()) and not c.get("exit"):
            # a static universe: what it yields once the backtest has used it (before, at and after the run)
            out.extra["static_universe_after"] = [list(sess.universe.get_assets(ts(t))) for t in (c["start"], (c["start"] + c["end"]) // 2, c["end"] + 1440)]
        out.holdings = dict((a, int(v["quantity"])) for a, v in pf.portfolio_to_dict().items())
        out.extra["pnl"] = dict((a, (float(v["realised_pnl"]), float(v["unrealised_pnl"]), float(v["market_value"])))
                                for a, v in pf.portfolio_to_dict().items())
        if out.failure is None:
            try:
                edf = sess.get_equity_curve()
                out.equity_df_dates = [str(d) for d in edf.index]
                out.extra["equity_df_values"] = [float(v) for v in edf["Equity"]]
                if out.allocs:
                    adf = sess.get_target_allocations()
                    out.alloc_df = dict(index=[str(d) for d in adf.index], columns=sorted(adf.columns),
                                        rows=[dict((col, (None if v != v else float(v))) for col, v in row.items())
                                              for _i, row in adf.iterrows()])
                # the accessors asked a second time: the frames must not change
                edf2 = sess.get_equity_curve()
                if [str(d) for d in edf2.index] != out.equity_df_dates or [float(v) for v in edf2["Equity"]] != out.extra["equity_df_values"]:
                    out.extra["frame_error"] = "get_equity_curve() called twice returns different frames"
                if out.allocs:
                    adf2 = sess.get_target_allocations()
                    if [str(d) for d in adf2.index] != out.alloc_df["index"] or sorted(adf2.columns) != out.alloc_df["columns"]:
                        out.extra["frame_error"] = "get_target_allocations() called twice returns different frames"
            except Exception as e:
                out.extra["frame_error"] = "%s: %s" % (type(e).__name__, e)
        if keep_session:
            out.extra["session"] = sess
        return out
    finally:
        if own:
            shutil.rmtree(csv_dir, ignore_errors=True)


# ---------------------------------------------------------------------------------------------
# code -> spec for whole backtests: record every broker call a real session makes
class BrokerRecorder(object):
    """Wraps SimulatedBroker's public calls (class level, restored on exit) while a real session is built and
    run, and records one event per call - call, outcome class, observed fills / marks, quotes, projected
    post-state - in the format specs/trace/BrokerTrace.tla validates."""

    METHODS = ("create_portfolio", "subscribe_funds_to_portfolio", "withdraw_funds_from_portfolio", "submit_order", "update")

    def __init__(self, observer, assets):
        self.ob = observer
        self.assets = assets
        self.events = []
        self.oid_of = {}
        self.noid = 0
        self.t0 = None

    def _quotes(self, b, dt):
        q = {}
        for a in self.assets:
            try:
                bid, ask = b.data_handler.get_asset_latest_bid_ask_price(dt, a)
            except Exception:
                bid = ask = float("nan")
            q[a] = dict(bid=0 if bid != bid else mil(bid), ask=0 if ask != ask else mil(ask))
        return q

    def _record(self, b, call, err, quote):
        from .broker_rig import project_broker
        marks, fills = self.ob.take()
        post = project_broker(b, self.oid_of)
        # the data handler's answers move with time: make every move an explicit environment event (as the
        # specification has it) placed before the call during which the new quotes were in force
        if self.events:
            cur = dict((a, dict(v)) for a, v in self.events[-1]["quote"].items())
            for a in sorted(quote):
                if quote[a] != cur[a]:
                    cur[a] = dict(quote[a])
                    self.events.append(dict(call=dict(op="price", asset=a, bid=quote[a]["bid"], ask=quote[a]["ask"]), err="ok",
                                            fills=[], marks=[], quote=dict((x, dict(v)) for x, v in cur.items()),
                                            post=self.events[-1]["post"]))
        self.events.append(dict(call=call, err=err,
                                fills=[dict(pid=f["pid"], oid=self.oid_of.get((f["pid"], f["oid"]), 0), asset=f["asset"], qty=int(f["qty"]),
                                            px=mil(f["px"]), comm=mil(f["comm"]), t=minutes(f["t"])) for f in fills],
                                marks=[dict(pid=m["pid"], asset=m["asset"], px=mil(m["px"]), t=minutes(m["t"])) for m in marks],
                                quote=quote, post=post))

    def installed(self):
        import contextlib
        from qstrader.broker.simulated_broker import SimulatedBroker
        rec = self
        saved = dict((m, getattr(SimulatedBroker, m)) for m in self.METHODS)
        saved["__init__"] = SimulatedBroker.__init__

        def init(b, start_dt, *a, **kw):
            saved["__init__"](b, start_dt, *a, **kw)
            rec.t0 = minutes(start_dt)
            rec.q0 = rec._quotes(b, start_dt)
            rec._record(b, dict(op="sub_acct", a=mil(b.initial_funds)), "ok", rec.q0)

        def wrap(name, mk_call):
            def f(b, *a, **kw):
                call, dt = mk_call(b, *a, **kw)
                quote = rec._quotes(b, dt)
                err = "ok"
                try:
                    return saved[name](b, *a, **kw)
                except Exception as e:
                    err = type(e).__name__
                    raise
                finally:
                    rec._record(b, call, err, quote)
            return f

        def mk_submit(b, pid, order):
            rec.noid += 1
            rec.oid_of[(pid, order.order_id)] = rec.noid
            return dict(op="submit", pid=pid, asset=order.asset, qty=int(order.quantity)), b.current_dt

        @contextlib.contextmanager
        def cm():
            SimulatedBroker.__init__ = init
            SimulatedBroker.create_portfolio = wrap("create_portfolio", lambda b, pid, name=None: (dict(op="create", pid=str(pid)), b.current_dt))
            SimulatedBroker.subscribe_funds_to_portfolio = wrap("subscribe_funds_to_portfolio",
                                                                lambda b, pid, amount: (dict(op="sub_pf", pid=pid, a=mil(amount)), b.current_dt))
            SimulatedBroker.withdraw_funds_from_portfolio = wrap("withdraw_funds_from_portfolio",
                                                                 lambda b, pid, amount: (dict(op="wd_pf", pid=pid, a=mil(amount)), b.current_dt))
            SimulatedBroker.submit_order = wrap("submit_order", mk_submit)
            SimulatedBroker.update = wrap("update", lambda b, dt: (dict(op="update", t=minutes(dt)), dt))
            try:
                yield rec
            finally:
                for m, f in saved.items():
                    setattr(SimulatedBroker, m, f)
        return cm()

    def trace(self, ident, fee):
        def clean(e):
            post = dict((k, v) for k, v in e["post"].items() if k != "_f")
            post["acctEq"] = post["acctEq"] if isinstance(post["acctEq"], int) else -999999999
            post["acctMv"] = post["acctMv"] if isinstance(post["acctMv"], int) else -999999999
            post["queue"] = dict((p, [dict(oid=o[0], asset=o[1], qty=o[2]) for o in q]) for p, q in post["queue"].items())
            return dict(call=e["call"], err=e["err"], fills=e["fills"], marks=e["marks"], quote=e["quote"], post=post)
        return dict(id=ident, t0=self.t0, quote=self.q0, fee=fee, ev=[clean(e) for e in self.events])


def record_session_trace(c, ident, rng=None):
    """Run the real session for configuration c with every broker call recorded.  Returns the trace, or None when
    the run's magnitudes would leave TLC's 32-bit integers (gross quantity x total paid per position)."""
    csv_dir = tempfile.mkdtemp(prefix="qsv-sesst-")
    try:
        write_market(csv_dir, c["market"], rng, adj=c.get("adj"), intfmt=bool(c.get("intfmt")))
        ob = Observer()
        rec = BrokerRecorder(ob, [SYM[a] for a in ASSETS])
        with ob.installed():
            with rec.installed():
                try:
                    sess = build_session(c, csv_dir)
                    with quiet(c):
                        sess.run(results=False)
                except Exception:
                    pass
        if rec.t0 is None:
            return None
        gross, total = {}, {}
        for e in rec.events:
            for f in e["fills"]:
                k = (f["pid"], f["asset"])
                gross[k] = gross.get(k, 0) + abs(f["qty"])
                total[k] = total.get(k, 0) + abs(f["qty"] * f["px"])
        if any(gross[k] * total[k] >= 1500000000 for k in gross):
            return None
        return rec.trace(ident, c["fee"])
    finally:
        shutil.rmtree(csv_dir, ignore_errors=True)


# ---------------------------------------------------------------------------------------------
# the repository's OWN end-to-end tests as trace sources
def record_repo_e2e_traces():
    """Run tests/integration/trading/test_backtest_e2e.py (unmodified, imported from /repo) with every broker
    call recorded.  Returns [(test name, passed?, trace)].  Their prices have 14 decimals and the account holds
    10^6, so the traces are validated in BrokerTrace's Structural mode."""
    import importlib.util
    from .common import REPO
    path = os.path.join(REPO, "tests", "integration", "trading", "test_backtest_e2e.py")
    fixtures = os.path.join(REPO, "tests", "integration", "trading", "fixtures")
    spec = importlib.util.spec_from_file_location("qsv_repo_e2e", path)
    mod = importlib.util.module_from_spec(spec)
    spec.loader.exec_module(mod)
    out = []
    saved_env = os.environ.get("QSTRADER_CSV_DATA_DIR")
    try:
        for name in sorted(n for n in dir(mod) if n.startswith("test_")):
            import contextlib
            import io
            ob = Observer()
            rec = BrokerRecorder(ob, ["EQ:ABC", "EQ:DEF", "EQ:GHI"])
            ok = True
            with ob.installed():
                with rec.installed():
                    buf = io.StringIO()

                    class _Capsys(object):            # stand-in for pytest's capsys fixture (one test reads what was printed)
                        def readouterr(self):
                            import collections
                            return collections.namedtuple("CaptureResult", "out err")(buf.getvalue(), "")

                    with contextlib.redirect_stdout(buf):      # the tests switch event printing on
                        try:
                            fn = getattr(mod, name)
                            if fn.__code__.co_argcount == 2:
                                fn(fixtures, _Capsys())
                            else:
                                fn(fixtures)
                        except AssertionError:
                            ok = False
                        except Exception:
                            ok = False
            if rec.t0 is not None:
                out.append((name, ok, rec.trace(900000 + len(out), dict(kind="zero", c=0, t=0))))
    finally:
        if saved_env is None:
            os.environ.pop("QSTRADER_CSV_DATA_DIR", None)
        else:
            os.environ["QSTRADER_CSV_DATA_DIR"] = saved_env
    return out
