"""Spec -> code conformance for the Broker engine: step a behaviour of MC_BrokerObs (a list of
TLC states, each carrying the call that produced it) through the real classes and compare, after
every call, what the real objects report with what TLC computed.  Every comparison is tagged with
the property it belongs to; the oracle is the TLC state, never a formula written here."""
from fractions import Fraction

from .broker_rig import BrokerRig, Observer

REL = 1e-9


def asdict(v):
    """TLC prints the empty function as <<>> (parsed as [])."""
    if isinstance(v, list) and not v:
        return {}
    return v


def rat_close(f, r, unit=1000.0):
    """float f (currency) against the exact rational r = [num, den] in mils."""
    exact = Fraction(r[0], r[1]) / Fraction(int(unit))
    return abs(Fraction(f) - exact) <= Fraction(REL) * max(1, abs(exact))


def is_rounding(h, x, unit=10):
    """h (mils) is x (mils) rounded to a multiple of unit; either neighbour on an exact tie."""
    return h % unit == 0 and 2 * abs(h - x) <= unit


def compare(S, ev, prev=None):
    """S: TLC state (dict of variables incl. obs, pnl, marks); ev: rig event; prev: the rig event before it.
    Returns a list of (tag, detail, cascade); tag is '<property>:<clause>'.  `cascade` tells whether the
    mismatch may make later steps of this behaviour meaningless.

    Attribution follows the properties, not raw state diffs:
      * a refused call (C15) is judged against the PREVIOUS projection of the real objects - nothing listed in the
        property may have changed - and against nothing else;
      * account totals (C01) are judged against the per-portfolio figures the getters themselves report;
      * equity / total market value (C02) are judged as relations between reported figures; a holding's market
        value against quantity x the latest price seen (TLC's ghost);
      * P&L (C03): realised against TLC's exact value; the three identities relative to the price the
        implementation currently values the holding at, TLC's exact average cost and TLC's ghost ledger."""
    out = []

    def bad(tag, detail, cascade=True):
        out.append((tag, detail, cascade))

    post = ev["post"]
    rejected = S["err"] != "ok"
    if ev["err"] != S["err"]:
        owner = "C15" if rejected or ev["call"]["op"].startswith("pf_") else _owner(ev["call"]["op"])
        bad(owner + ":outcome", "call %r: expected %s, got %s" % (ev["call"], S["err"], ev["err"]))
    # ---- always: account totals, getters on unknown ids, internal relations --------------------------------
    if post["other"] != 0:
        bad("C01:other-currency", "other currency balances moved: %s" % post["other"])
    npf = max(1, len(post["created"]))       # each figure is a float rounded to a mil separately: one mil per summand
    if not isinstance(post["acctEq"], int) or abs(post["acctEq"] - sum(post["teq"].values())) > npf:
        bad("C01:account-equity", "account total equity %s, per-portfolio figures %s" % (post["acctEq"], post["teq"]), cascade=False)
    if not isinstance(post["acctMv"], int) or abs(post["acctMv"] - sum(post["tmv"].values())) > npf:
        bad("C01:account-market-value", "account total market value %s, per-portfolio figures %s" % (post["acctMv"], post["tmv"]),
            cascade=False)
    exp_unk = dict(cash="ValueError", tmv="KeyError", teq="KeyError", dict="KeyError", ccy="ValueError")
    if post["unk"] != exp_unk:
        bad("C15:getter-errtype", "getters on unknown ids raised %s, expected %s" % (post["unk"], exp_unk), cascade=False)
    for p in post["created"]:
        if abs(post["teq"][p] - (post["cash"][p] + post["tmv"][p])) > 1:
            bad("C02:equity", "total equity[%s] %s != cash %s + market value %s" % (p, post["teq"][p], post["cash"][p], post["tmv"][p]),
                cascade=False)
        if abs(post["tmv"][p] - sum(v["mv"] for v in post["hold"][p].values())) > max(1, len(post["hold"][p])):
            bad("C02:mv-total", "total market value[%s] %s != sum of holdings %s" % (p, post["tmv"][p], post["hold"][p]), cascade=False)
    if post["now"] != S["now"]:
        bad("MODEL:now", "broker clock %s, expected %s" % (post["now"], S["now"]))
    # ---- a refused call: nothing the property lists may have changed --------------------------------------
    if rejected:
        if prev is not None:
            pp = prev["post"]
            if post["master"] != pp["master"]:
                bad("C15:state(master)", "master %s -> %s across a refused call" % (pp["master"], post["master"]))
                bad("C01:untouched-by-refusal", "master %s -> %s although the call was refused" % (pp["master"], post["master"]))
            if post["created"] != pp["created"]:
                bad("C15:state(portfolios)", "portfolios %s -> %s across a refused call" % (pp["created"], post["created"]))
            for p in pp["created"]:
                if p not in post["cash"]:
                    continue
                if post["cash"][p] != pp["cash"][p]:
                    bad("C15:state(cash)", "cash[%s] %s -> %s across a refused call" % (p, pp["cash"][p], post["cash"][p]))
                    bad("C01:untouched-by-refusal", "cash[%s] %s -> %s although the call was refused: not a movement the property lists" % (
                        p, pp["cash"][p], post["cash"][p]))
                h0 = dict((a, (v["qty"], v["mv"])) for a, v in pp["hold"][p].items())
                h1 = dict((a, (v["qty"], v["mv"])) for a, v in post["hold"][p].items())
                if h0 != h1:
                    bad("C15:state(holdings)", "holdings[%s] %s -> %s across a refused call" % (p, h0, h1))
                    bad("C02:untouched-by-refusal", "holdings[%s] %s -> %s although the call was refused, i.e. without a fill" % (p, h0, h1))
                g0 = dict((a, (v["qty"], v["rpnl"], v["upnl"], v["tpnl"])) for a, v in pp["hold"][p].items())
                g1 = dict((a, (v["qty"], v["rpnl"], v["upnl"], v["tpnl"])) for a, v in post["hold"][p].items())
                if any(g0[a] != g1[a] for a in set(g0) & set(g1)):
                    bad("C03:untouched-by-refusal", "P&L figures[%s] %s -> %s across a refused call (no fill, no re-mark)" % (p, g0, g1))
                if post["queue"][p] != pp["queue"][p]:
                    bad("C15:state(pending-orders)", "queue[%s] %s -> %s across a refused call" % (p, pp["queue"][p], post["queue"][p]))
                if post["hist"][p] != pp["hist"][p]:
                    bad("C15:state(history)", "history[%s] changed across a refused call (%d -> %d events)" % (
                        p, len(pp["hist"][p]), len(post["hist"][p])))
        if ev["fills"] or ev["marks"]:
            bad("C15:state(no-fill)", "a refused call filled %s / marked %s" % (ev["fills"], ev["marks"]))
        for p in post["created"]:
            if p in asdict(S["clk"]) and post["clk"][p] != asdict(S["clk"])[p]:
                bad("MODEL:clk", "clock[%s] %s, expected %s" % (p, post["clk"][p], asdict(S["clk"])[p]))
        return out
    # ---- an accepted call: the post-state is what TLC computed ---------------------------------------------
    cash, clk, pos = asdict(S["cash"]), asdict(S["clk"]), asdict(S["pos"])
    hist, queue, obs = asdict(S["hist"]), asdict(S["queue"]), S["obs"]
    seen = asdict(S["seen"])
    if post["master"] != S["master"]:
        bad("C01:master", "master %s, expected %s" % (post["master"], S["master"]))
    if post["created"] != list(S["created"]):
        bad("C01:portfolios", "portfolios %s, expected %s" % (post["created"], S["created"]))
        return out
    for p in post["created"]:
        if post["cash"][p] != cash[p]:
            bad("C01:cash", "cash[%s] %s, expected %s" % (p, post["cash"][p], cash[p]))
        if post["clk"][p] != clk[p]:
            bad("MODEL:clk", "clock[%s] %s, expected %s" % (p, post["clk"][p], clk[p]))
        # history: same events, in order, amounts and balances = true values rounded to cents
        h, eh = post["hist"][p], list(hist[p])
        if len(h) != len(eh):
            bad("C01:history", "history[%s] has %d events, expected %d" % (p, len(h), len(eh)))
        else:
            for i, (x, e) in enumerate(zip(h, eh)):
                if x["kind"] != e["kind"] or x["t"] != e["t"] or not is_rounding(x["debit"], e["debit"]) \
                        or not is_rounding(x["credit"], e["credit"]) or not is_rounding(x["bal"], e["bal"]):
                    bad("C01:history", "history[%s][%d] %r, expected (true amounts) %r" % (p, i, x, e))
                    break
        # holdings: net of the fills, valued at the latest price seen
        hold, ehold = post["hold"][p], asdict(asdict(obs["hold"])[p])
        if set(hold) != set(ehold):
            bad("C02:domain", "holdings[%s] %s, expected %s" % (p, sorted(hold), sorted(ehold)))
        for a in set(hold) & set(ehold):
            if hold[a]["qty"] != ehold[a]["qty"]:
                bad("C02:qty", "qty[%s][%s] %s, expected %s" % (p, a, hold[a]["qty"], ehold[a]["qty"]))
                continue
            sp = asdict(seen[p])[a]
            if hold[a]["mv"] != hold[a]["qty"] * sp:
                bad("C02:mv", "market value[%s][%s] %s, expected %s x latest price seen %s" % (p, a, hold[a]["mv"], hold[a]["qty"], sp))
            # C03 relative to the price the implementation values the holding at
            f = post["_f"]["hold"][p][a]
            e = ehold[a]
            q = hold[a]["qty"]
            if not rat_close(f["rpnl"], e["rpnl"]):
                bad("C03:rpnl", "rpnl[%s][%s] %r, expected %s/%s mil" % (p, a, f["rpnl"], e["rpnl"][0], e["rpnl"][1]), cascade=False)
            if abs(f["tpnl"] - f["rpnl"] - f["upnl"]) > REL * max(1.0, abs(f["tpnl"])):
                bad("C03:total", "tpnl[%s][%s] %r != realised %r + unrealised %r" % (p, a, f["tpnl"], f["rpnl"], f["upnl"]), cascade=False)
            ledger = Fraction(f["mv"]) - Fraction(e["paid"] + e["fees"], 1000)
            if abs(Fraction(f["tpnl"]) - ledger) > Fraction(REL) * max(1, abs(ledger)):
                bad("C03:tpnl", "tpnl[%s][%s] %r, expected market value %r - paid %s - fees %s mil" % (p, a, f["tpnl"], f["mv"], e["paid"], e["fees"]),
                    cascade=False)
            if e["avg"][1] != 0 and q != 0:
                px_obs = Fraction(f["mv"]) / q
                exp_u = (px_obs - Fraction(e["avg"][0], e["avg"][1]) / 1000) * q
                if abs(Fraction(f["upnl"]) - exp_u) > Fraction(REL) * max(1, abs(exp_u)):
                    bad("C03:upnl", "upnl[%s][%s] %r, expected (price %s - average cost %s/%s mil) x %s" % (
                        p, a, f["upnl"], float(px_obs), e["avg"][0], e["avg"][1], q), cascade=False)
        fl = post["_f"]
        if not rat_close(fl["trp"][p], asdict(S["pnl"]["trp"])[p]):
            bad("C03:trp", "total realised[%s] %r, expected %s" % (p, fl["trp"][p], asdict(S["pnl"]["trp"])[p]), cascade=False)
        if abs(fl["ttp"][p] - fl["trp"][p] - fl["tup"][p]) > REL * max(1.0, abs(fl["ttp"][p])):
            bad("C03:ttp", "total pnl[%s] %r != %r + %r" % (p, fl["ttp"][p], fl["trp"][p], fl["tup"][p]), cascade=False)
        # pending orders
        q = [[o["oid"], o["asset"], o["qty"]] for o in queue[p]]
        if post["queue"][p] != q:
            bad("C04:queue", "queue[%s] %s, expected %s" % (p, post["queue"][p], q))
    # the fills of this call: which orders (C04), at what price / commission / time (C05)
    eb = list(S["batch"])
    fills = ev["fills"]
    ident = [(f["pid"], f["oid"], f["asset"], f["qty"]) for f in fills]
    eident = [(f["pid"], f["oid"], f["asset"], f["qty"]) for f in eb]
    if ident != eident:
        bad("C04:batch", "filled %s, expected %s" % (ident, eident))
        # the same orders were filled, but (some) in another portfolio than the one they were submitted to:
        # that portfolio's cash / holdings miss one of its own fills
        if sorted(x[1:] for x in ident) == sorted(x[1:] for x in eident):
            wrong = [(g, e) for g, e in zip(sorted(ident, key=lambda x: x[1]), sorted(eident, key=lambda x: x[1])) if g[0] != e[0]]
            if wrong:
                bad("C01:fill-portfolio", "order %s filled in portfolio %s, submitted to %s" % (wrong[0][0][1], wrong[0][0][0], wrong[0][1][0]))
                bad("C02:fill-portfolio", "order %s filled in portfolio %s, submitted to %s" % (wrong[0][0][1], wrong[0][0][0], wrong[0][1][0]))
    else:
        for f, e in zip(fills, eb):
            if f["px"] != e["px"]:
                bad("C05:price", "fill %s priced %s, expected %s" % (ident, f["px"], e["px"]))
            if f["comm"] != e["comm"]:
                bad("C05:commission", "fill %s commission %s, expected %s" % (ident, f["comm"], e["comm"]))
            if f["t"] != e["t"]:
                bad("C05:stamp", "fill %s stamped %s, expected %s" % (ident, f["t"], e["t"]))
    if ev["call"].get("op") == "update" and prev is not None:
        for p in post["created"]:
            if p in prev["post"]["cash"]:
                owed = sum(f["qty"] * f["px"] + f["comm"] for f in fills if f["pid"] == p)
                if prev["post"]["cash"][p] - post["cash"][p] != owed:
                    bad("C05:debited", "cash[%s] moved by %s across the update, its fills' consideration plus commission is %s (%s)" % (
                        p, post["cash"][p] - prev["post"]["cash"][p], owed, [(f["qty"], f["px"], f["comm"]) for f in fills if f["pid"] == p]), cascade=False)
    em = set((m[0], m[1], m[2]) for m in S["marks"])
    gm = set((m["pid"], m["asset"], m["px"]) for m in ev["marks"])
    if em != gm:
        bad("C02:marks", "marks %s, expected %s" % (sorted(gm), sorted(em)))
    return out


def _owner(op):
    return {"submit": "C04", "update": "C04"}.get(op, "C01")


def replay(states, stop_on_cascade=True, printing=False, ctor_funds=False, ccy="USD", seconds=0.0):
    """states: [TLC state dict, ...] of one behaviour (first = initial).  Returns
    (events, mismatches) with mismatches = [(step, tag, detail)]."""
    S0 = states[0]
    ob = Observer()
    events, mism = [], []
    with ob.installed():
        rig = BrokerRig(S0["now"], asdict(S0["quote"]), S0["fee"], ob, printing=printing, ctor_funds=ctor_funds, ccy=ccy, seconds=seconds)
        seed = seed_calls(S0)
        for c in seed:
            ev = rig.apply(c)
            if ev["err"] != "ok":
                raise RuntimeError("seeding call failed: %r -> %s" % (c, ev["err"]))
        ev0 = dict(call={"op": "init"}, err="ok", marks=[], fills=[], post=rig.project())
        ms0 = compare(S0, ev0, None)
        for t, d, c in ms0:
            mism.append((0, t, d))
        events.append(ev0)
        if stop_on_cascade and any(c for _t, _d, c in ms0):
            return events, mism
        for i, S in enumerate(states[1:], 1):
            ev = rig.apply(dict(S["call"]))
            events.append(ev)
            ms = compare(S, ev, events[-2])
            for t, d, c in ms:
                mism.append((i, t, d))
            if stop_on_cascade and any(c for _t, _d, c in ms):
                break
    return events, mism


def seed_calls(S0):
    """The calls that build a seeded initial state (see MC_Broker.SeedState): derived from the
    state itself - external subscription, then per portfolio creation and its transfers."""
    created = list(S0["created"])
    if not created:
        return []
    ext = S0["ext"]
    calls = [dict(op="sub_acct", a=ext["in"])]
    for p in created:
        calls.append(dict(op="create", pid=p))
        for h in asdict(S0["hist"])[p]:
            assert h["kind"] == "subscription"
            calls.append(dict(op="sub_pf", pid=p, a=h["credit"]))
    return calls
