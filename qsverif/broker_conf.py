"""Spec -> code conformance for the Broker engine: step a behaviour of MC_BrokerObs (a list of
TLC states, each carrying the call that produced it) through the real classes and compare, after
every call, what the real objects report with what TLC computed.  Every comparison is tagged with
the property it belongs to; the oracle is the TLC state, never a formula written here."""
from fractions import Fraction

from .broker_rig import BrokerRig, Observer

REL = 1e-9


def asdict(v):
    """TLC prints the empty function as <<>> (parsed as [])."""
    if isinstance(v, list) and not v:
        return {}
    return v


def rat_close(f, r, unit=1000.0):
    """float f (currency) against the exact rational r = [num, den] in mils."""
    exact = Fraction(r[0], r[1]) / Fraction(int(unit))
    return abs(Fraction(f) - exact) <= Fraction(REL) * max(1, abs(exact))


def is_rounding(h, x, unit=10):
    """h (mils) is x (mils) rounded to a multiple of unit; either neighbour on an exact tie."""
    return h % unit == 0 and 2 * abs(h - x) <= unit


def compare(S, ev):
    """S: TLC state (dict of variables incl. obs, marks); ev: rig event.  Returns a list of
    (tag, detail); tag is '<property>:<clause>'.  `cascade` tells whether the mismatch may make
    later steps of this behaviour meaningless."""
    out = []

    def bad(tag, detail, cascade=True):
        out.append((tag, detail, cascade))

    post = ev["post"]
    rejected = S["err"] != "ok"
    if ev["err"] != S["err"]:
        owner = "C15" if rejected or ev["call"]["op"].startswith("pf_") else _owner(ev["call"]["op"])
        bad(owner + ":outcome", "call %r: expected %s, got %s" % (ev["call"], S["err"], ev["err"]))
    pre = "C15:rejected-state/" if rejected else ""

    def tag(t):
        # after a refusal every observable belongs to C15 ("changes nothing")
        return ("C15:state(" + t + ")") if rejected else t

    cash, clk, pos = asdict(S["cash"]), asdict(S["clk"]), asdict(S["pos"])
    hist, queue, obs = asdict(S["hist"]), asdict(S["queue"]), S["obs"]
    if post["master"] != S["master"]:
        bad(tag("C01:master"), "master %s, expected %s" % (post["master"], S["master"]))
    if post["other"] != 0:
        bad(tag("C01:other-currency"), "other currency balances moved: %s" % post["other"])
    if post["created"] != list(S["created"]):
        bad(tag("C01:portfolios"), "portfolios %s, expected %s" % (post["created"], S["created"]))
        return out
    if post["now"] != S["now"]:
        bad("MODEL:now", "broker clock %s, expected %s" % (post["now"], S["now"]))
    for p in post["created"]:
        if post["cash"][p] != cash[p]:
            bad(tag("C01:cash"), "cash[%s] %s, expected %s" % (p, post["cash"][p], cash[p]))
        if post["clk"][p] != clk[p]:
            bad("MODEL:clk", "clock[%s] %s, expected %s" % (p, post["clk"][p], clk[p]))
        # history: same events, in order, amounts and balances = true values rounded to cents
        h, eh = post["hist"][p], list(hist[p])
        if len(h) != len(eh):
            bad(tag("C01:history"), "history[%s] has %d events, expected %d" % (p, len(h), len(eh)))
        else:
            for i, (x, e) in enumerate(zip(h, eh)):
                if x["kind"] != e["kind"] or x["t"] != e["t"] or not is_rounding(x["debit"], e["debit"]) \
                        or not is_rounding(x["credit"], e["credit"]) or not is_rounding(x["bal"], e["bal"]):
                    bad(tag("C01:history"), "history[%s][%d] %r, expected (true amounts) %r" % (p, i, x, e))
                    break
        # holdings
        hold, ehold = post["hold"][p], asdict(asdict(obs["hold"])[p])
        if set(hold) != set(ehold):
            bad(tag("C02:domain"), "holdings[%s] %s, expected %s" % (p, sorted(hold), sorted(ehold)))
        for a in set(hold) & set(ehold):
            if hold[a]["qty"] != ehold[a]["qty"]:
                bad(tag("C02:qty"), "qty[%s][%s] %s, expected %s" % (p, a, hold[a]["qty"], ehold[a]["qty"]))
            if hold[a]["mv"] != ehold[a]["mv"]:
                bad(tag("C02:mv"), "market value[%s][%s] %s, expected %s" % (p, a, hold[a]["mv"], ehold[a]["mv"]))
            f = post["_f"]["hold"][p][a]
            for k in ("rpnl", "upnl", "tpnl"):
                if not rat_close(f[k], ehold[a][k]):
                    bad(tag("C03:" + k), "%s[%s][%s] %r, expected %s/%s mil" % (k, p, a, f[k], ehold[a][k][0], ehold[a][k][1]),
                        cascade=False)
        if post["tmv"][p] != asdict(obs["tmv"])[p]:
            bad(tag("C02:mv-total"), "total market value[%s] %s, expected %s" % (p, post["tmv"][p], asdict(obs["tmv"])[p]))
        if post["teq"][p] != asdict(obs["teq"])[p]:
            bad(tag("C02:equity"), "total equity[%s] %s, expected %s" % (p, post["teq"][p], asdict(obs["teq"])[p]))
        for k in ("trp", "tup", "ttp"):
            if not rat_close(post["_f"][k][p], asdict(S["pnl"][k])[p]):
                bad(tag("C03:" + k), "%s[%s] %r, expected %s" % (k, p, post["_f"][k][p], asdict(S["pnl"][k])[p]), cascade=False)
        # pending orders
        q = [[o["oid"], o["asset"], o["qty"]] for o in queue[p]]
        if post["queue"][p] != q:
            bad(tag("C04:queue"), "queue[%s] %s, expected %s" % (p, post["queue"][p], q))
    # account totals are always obtainable and are the sums
    if post["acctEq"] != obs["acctEq"]:
        bad("C01:account-equity", "account total equity %s, expected %s" % (post["acctEq"], obs["acctEq"]), cascade=False)
    if post["acctMv"] != obs["acctMv"]:
        bad("C01:account-market-value", "account total market value %s, expected %s" % (post["acctMv"], obs["acctMv"]),
            cascade=False)
    exp_unk = dict(cash="ValueError", tmv="KeyError", teq="KeyError", dict="KeyError", ccy="ValueError")
    if post["unk"] != exp_unk:
        bad("C15:getter-errtype", "getters on unknown ids raised %s, expected %s" % (post["unk"], exp_unk), cascade=False)
    # the fills of this call: which orders (C04), at what price / commission / time (C05)
    eb = list(S["batch"])
    fills = ev["fills"]
    ident = [(f["pid"], f["oid"], f["asset"], f["qty"]) for f in fills]
    eident = [(f["pid"], f["oid"], f["asset"], f["qty"]) for f in eb]
    if ident != eident:
        bad(tag("C04:batch"), "filled %s, expected %s" % (ident, eident))
        # the same orders were filled, but (some) in another portfolio than the one they were submitted to:
        # that portfolio's cash / holdings miss one of its own fills
        if sorted(x[1:] for x in ident) == sorted(x[1:] for x in eident):
            wrong = [(g, e) for g, e in zip(sorted(ident, key=lambda x: x[1]), sorted(eident, key=lambda x: x[1])) if g[0] != e[0]]
            if wrong:
                bad(tag("C01:fill-portfolio"), "order %s filled in portfolio %s, submitted to %s" % (wrong[0][0][1], wrong[0][0][0], wrong[0][1][0]))
                bad(tag("C02:fill-portfolio"), "order %s filled in portfolio %s, submitted to %s" % (wrong[0][0][1], wrong[0][0][0], wrong[0][1][0]))
    else:
        for f, e in zip(fills, eb):
            if f["px"] != e["px"]:
                bad(tag("C05:price"), "fill %s priced %s, expected %s" % (ident, f["px"], e["px"]))
            if f["comm"] != e["comm"]:
                bad(tag("C05:commission"), "fill %s commission %s, expected %s" % (ident, f["comm"], e["comm"]))
            if f["t"] != e["t"]:
                bad(tag("C05:stamp"), "fill %s stamped %s, expected %s" % (ident, f["t"], e["t"]))
    em = set((m[0], m[1], m[2]) for m in S["marks"])
    gm = set((m["pid"], m["asset"], m["px"]) for m in ev["marks"])
    if em != gm:
        bad(tag("C02:marks"), "marks %s, expected %s" % (sorted(gm), sorted(em)))
    return out


def _owner(op):
    return {"submit": "C04", "update": "C04"}.get(op, "C01")


def replay(states, stop_on_cascade=True):
    """states: [TLC state dict, ...] of one behaviour (first = initial).  Returns
    (events, mismatches) with mismatches = [(step, tag, detail)]."""
    S0 = states[0]
    ob = Observer()
    events, mism = [], []
    with ob.installed():
        rig = BrokerRig(S0["now"], asdict(S0["quote"]), S0["fee"], ob)
        seed = seed_calls(S0)
        for c in seed:
            ev = rig.apply(c)
            if ev["err"] != "ok":
                raise RuntimeError("seeding call failed: %r -> %s" % (c, ev["err"]))
        ev0 = dict(call={"op": "init"}, err="ok", marks=[], fills=[], post=rig.project())
        ms0 = compare(S0, ev0)
        for t, d, c in ms0:
            mism.append((0, t, d))
        events.append(ev0)
        if stop_on_cascade and any(c for _t, _d, c in ms0):
            return events, mism
        for i, S in enumerate(states[1:], 1):
            ev = rig.apply(dict(S["call"]))
            events.append(ev)
            ms = compare(S, ev)
            for t, d, c in ms:
                mism.append((i, t, d))
            if stop_on_cascade and any(c for _t, _d, c in ms):
                break
    return events, mism


def seed_calls(S0):
    """The calls that build a seeded initial state (see MC_Broker.SeedState): derived from the
    state itself - external subscription, then per portfolio creation and its transfers."""
    created = list(S0["created"])
    if not created:
        return []
    ext = S0["ext"]
    calls = [dict(op="sub_acct", a=ext["in"])]
    for p in created:
        calls.append(dict(op="create", pid=p))
        for h in asdict(S0["hist"])[p]:
            assert h["kind"] == "subscription"
            calls.append(dict(op="sub_pf", pid=p, a=h["credit"]))
    return calls
