"""Random drivers for the code -> spec direction of the Broker engine.  They only CALL the real
classes (through broker_rig) and RECORD; what is right or wrong is decided by TLC validating the
recorded trace against specs/trace/BrokerTrace.tla.

Values are far outside the grid TLC enumerates (mil-precise prices, arbitrary fee rates, large
cash, longer sequences) but stay inside the 32-bit budget of the trace specification:
  cash <= 2e8 mil, price <= 50 000 mil, |order| <= 20, gross quantity per (portfolio, asset) <= 160
  => totals <= 8e6 mil, rational numerators <= 8e6 * 160 = 1.28e9 < 2^31.
"""
import json
import random

from .broker_rig import BrokerRig, Observer, cur, NO_QUOTE

ASSETS = ["A", "B", "C"]
PIDS = ["P1", "P2", "P3"]
DAY0 = 18264           # 2020-01-03, a Friday
BOUNDARY_MINUTES = [0, 600, 869, 870, 871, 1000, 1259, 1260, 1261, 1439]
MAX_GROSS = 160


def rand_fee(rng):
    k = rng.random()
    if k < 0.25:
        return dict(kind="zero", c=0, t=0)
    return dict(kind="percent", c=rng.choice([0, 1, 5, 10, 17, 25, 125]), t=rng.choice([0, 0, 1, 5, 13]))


def rand_quote(rng):
    bid = rng.randint(500, 49000)
    spread = rng.choice([2, 4, 10, 26, 126, 250, 334])      # even: the mid quote is a whole number of mils
    if rng.random() < 0.1:
        return dict(bid=bid + spread, ask=bid)          # crossed market: bid != ask is all that is assumed
    return dict(bid=bid, ask=bid + spread)


def gen_trace(seed, n_calls=45):
    """Returns the JSON-able trace dict {id, t0, quote, fee, ev: [...]}."""
    rng = random.Random(seed)
    # winter (UTC-5 in New York) or summer (26 weeks later, same weekdays, daylight-saving time in New York): exchange hours
    # are 14:30-21:00 UTC all year
    t0 = (DAY0 + (182 if seed % 2 else 0) + rng.randint(0, 6)) * 1440 + rng.choice([0, 870, 600])
    quotes = dict((a, rand_quote(rng)) for a in ASSETS)
    cur = dict(quotes)
    rng2 = random.Random(seed * 31 + 7)
    fee = rand_fee(rng)
    ob = Observer()
    evs = []
    gross = {}
    with ob.installed():
        rig = BrokerRig(t0, quotes, fee, ob, printing=(seed % 4 == 3), ctor_funds=(seed % 3 == 1),
                        ccy=["USD", "GBP", "USD", "EUR", "USD"][seed % 5],
                        seconds=[0.0, 59.5, 0.0, 0.25][seed % 4])       # a quarter of the traces with event printing ON
        now = t0
        created = []

        def do(c):
            ev = rig.apply(c)
            evs.append(ev)
            return ev

        # a funded start most of the time, so that the calls below have something to work on
        if rng.random() < 0.9:
            do(dict(op="sub_acct", a=rng.randint(1, 200000) * 1000 + rng.choice([0, 0, 250, 505, 999])))
            for p in PIDS[:rng.randint(1, 3)]:
                do(dict(op="create", pid=p))
                created.append(p)
                if rng.random() < 0.9:
                    m = rig.project()["master"]
                    do(dict(op="sub_pf", pid=p, a=rng.randint(0, m // 2)))
        while len(evs) < n_calls:
            r = rng.random()
            anyp = rng.choice(PIDS + ["PX"])
            if r < 0.30:                                   # order
                p = rng.choice(created) if created and rng.random() < 0.9 else anyp
                a = rng.choice(ASSETS)
                q = rng.choice([-1, 1]) * rng.randint(1, 20)
                if rng.random() < 0.05:
                    q = 0                                  # an order for nothing: fills, books no position, costs nothing
                g = gross.get((p, a), 0)
                if g + abs(q) > MAX_GROSS:
                    continue
                if p in created:
                    gross[(p, a)] = g + abs(q)
                do(dict(op="submit", pid=p, asset=a, qty=q))
            elif r < 0.55:                                 # clock
                k = rng.random()
                if k < 0.12:
                    t = now - rng.choice([1, 60, 1440])    # earlier than the broker clock
                elif k < 0.5:
                    d = now // 1440 + rng.choice([0, 0, 0, 1, 1, 2, 3])
                    t = max(now, d * 1440 + rng.choice(BOUNDARY_MINUTES))
                else:
                    t = now + rng.choice([0, 1, 30, 389, 390, 391, 1440, 2880])
                ev = do(dict(op="update", t=t))
                now = ev["post"]["now"]
                # corrupt data: now and then a HELD asset is quoted at a negative (or zero) mid; the next clock update must
                # be refused as a whole; then the quote is repaired.  (Second stream: the other draws stay as they were.)
                if rng2.random() < 0.12:
                    pr = rig.project()
                    heldnow = sorted(set(a for p in created for a in pr["hold"].get(p, {}) if a in cur))
                    if heldnow:
                        a = rng2.choice(heldnow)
                        bad = rng2.choice([dict(bid=-2250, ask=-1750), dict(bid=-250, ask=250), dict(bid=-40001, ask=-39999)])
                        # ... sometimes while another held asset has no quote at all (NaN): the update is refused all the same
                        others = [x for x in heldnow if x != a]
                        nq = rng2.choice(others) if others and rng2.random() < 0.4 else None
                        if nq:
                            do(dict(op="price", asset=nq, bid=NO_QUOTE, ask=NO_QUOTE))
                        do(dict(op="price", asset=a, bid=bad["bid"], ask=bad["ask"]))
                        ev = do(dict(op="update", t=now + rng2.choice([0, 1, 1440])))
                        now = ev["post"]["now"]
                        do(dict(op="price", asset=a, bid=cur[a]["bid"], ask=cur[a]["ask"]))
                        if nq:
                            do(dict(op="price", asset=nq, bid=cur[nq]["bid"], ask=cur[nq]["ask"]))
            elif r < 0.67:                                 # price move
                a = rng.choice(ASSETS)
                q = rand_quote(rng)
                do(dict(op="price", asset=a, bid=q["bid"], ask=q["ask"]))
                cur[a] = q
            elif r < 0.80:                                 # transfers
                k = rng.random()
                pr = rig.project()
                b = rig.broker
                if k < 0.3:
                    do(_exact(dict(op="sub_pf", pid=anyp, a=_amount(rng, pr["master"])), pr["master"],
                              b.get_account_cash_balance(b.base_currency)))
                elif k < 0.6:
                    c = pr["cash"].get(anyp, 1000)
                    do(_exact(dict(op="wd_pf", pid=anyp, a=_amount(rng, c)), c,
                              b.get_portfolio_cash_balance(anyp) if anyp in pr["cash"] else 1.0))
                elif k < 0.75:
                    do(dict(op="sub_acct", a=_amount(rng, 5000000)))
                elif k < 0.9:
                    do(_exact(dict(op="wd_acct", a=_amount(rng, pr["master"])), pr["master"],
                              b.get_account_cash_balance(b.base_currency)))
                else:
                    p = rng.choice(PIDS)
                    ev = do(dict(op="create", pid=p))
                    if ev["err"] == "ok":
                        created.append(p)
            elif created:                                  # requests made directly on a portfolio
                p = rng.choice(created)
                pr = rig.project()
                t = rng.choice([now, now, pr["clk"][p], pr["clk"][p] - 1, now - 1, now - 1440])
                if t > now:
                    continue
                k = rng.random()
                if k < 0.25:
                    do(dict(op="pf_sub", pid=p, t=t, a=rng.choice([-1000, -1, 0, 1234567])))
                elif k < 0.5:
                    do(dict(op="pf_wd", pid=p, t=t, a=rng.choice([-1000, -1, 0, 777, abs(pr["cash"][p]) + 1])))
                elif k < 0.75:
                    do(dict(op="pf_mark", pid=p, asset=rng.choice(ASSETS), t=t, px=rng.choice([-1000, -1, 12345, 40001])))
                else:
                    a = rng.choice(ASSETS)
                    q = rng.choice([-3, -1, 1, 2, -3, -1, 1, 2, 0])
                    px = rng.randint(500, 50000)
                    held = pr["hold"][p].get(a, {}).get("qty", 0)
                    if held and rng.random() < 0.4:
                        # a transaction that would close the holding exactly - valid, stamped before the position's own
                        # clock, or (the asset being held, hence refused by the position) at a non-positive price
                        q = -held
                        if rng.random() < 0.3:
                            px = rng.choice([0, -5000])
                    g = gross.get((p, a), 0)
                    if g + abs(q) > MAX_GROSS:
                        continue
                    gross[(p, a)] = g + abs(q)
                    comm = rng.choice([0, 125, 999])
                    if q < 0 and px > 0 and rng2.random() < 0.2:
                        comm = px * -q              # a sale whose commission eats the proceeds exactly: total cost 0, still a fill
                    do(dict(op="pf_txn", pid=p, asset=a, qty=q, px=px, comm=comm, t=t))
    return dict(id=seed, t0=t0, quote=quotes, fee=fee, ev=[to_json_event(e, rig_quote) for e, rig_quote in _with_quotes(evs, quotes)])


def gen_big_trace(seed):
    """Large volumes, tiny residue: buy N, sell N - r (or the reverse) with N up to 300 000 and r in 1..3, at prices of
    a dollar or two, so that the totals stay inside the trace specification's 32-bit budget.  What is left is r
    units: held, valued and marked like any other position (nothing in C02 depends on the size of the trades)."""
    rng = random.Random(seed * 7919 + 13)
    t0 = (DAY0 + 3) * 1440 + 870                    # Monday 2020-01-06 14:30: the market is open
    quotes = dict((a, dict(bid=b, ask=b + rng.choice([2, 10, 26]))) for a, b in ((a, rng.randint(500, 1400)) for a in ASSETS))
    fee = rng.choice([dict(kind="zero", c=0, t=0), dict(kind="percent", c=1, t=0), dict(kind="percent", c=1, t=1)])
    r = rng.choice([1, 1, 2, 3])
    n = rng.randint(100000 * r, 300000)
    sign = rng.choice([1, 1, -1])
    a = rng.choice(ASSETS)
    calls = [dict(op="sub_acct", a=1000000000), dict(op="create", pid="P1"), dict(op="sub_pf", pid="P1", a=1000000000),
             dict(op="submit", pid="P1", asset=a, qty=sign * n), dict(op="update", t=t0 + 1),
             dict(op="submit", pid="P1", asset=a, qty=-sign * (n - r)), dict(op="update", t=t0 + 2)]
    b = rng.randint(500, 1400)
    calls += [dict(op="price", asset=a, bid=b, ask=b + 4), dict(op="update", t=t0 + 3),
              dict(op="submit", pid="P1", asset=a, qty=rng.choice([-1, 1]) * rng.randint(1, 5)), dict(op="update", t=t0 + 4),
              dict(op="update", t=t0 + 1440)]
    tr = record_calls(seed, t0, quotes, fee, calls, printing=(seed % 3 == 2))
    tr["big"] = dict(n=n, r=r, sign=sign, asset=a)
    return tr


def gen_batch_trace(seed):
    """Many orders pending at ONE in-hours update: 17-40 orders of one to three portfolios, buys and sells mixed, several
    per asset and side, submitted while the exchange is closed and executed together at the open.  Sells before buys,
    and within a side the order of submission (portfolio by portfolio): nothing in C04 depends on how many there are."""
    rng = random.Random(seed * 6007 + 5)
    t0 = (DAY0 + 3) * 1440 + 600                    # Monday 2020-01-06 10:00: closed
    quotes = dict((a, rand_quote(rng)) for a in ASSETS)
    fee = rng.choice([dict(kind="zero", c=0, t=0), dict(kind="percent", c=5, t=1)])
    pids = PIDS[:rng.randint(1, 3)]
    calls = [dict(op="sub_acct", a=600000000)]
    for p in pids:
        calls += [dict(op="create", pid=p), dict(op="sub_pf", pid=p, a=200000000)]
    n = rng.randint(17, 40)
    gross = {}
    for _ in range(n):
        p, a = rng.choice(pids), rng.choice(ASSETS)
        q = rng.choice([-1, 1]) * rng.randint(1, 6)
        if gross.get((p, a), 0) + abs(q) > MAX_GROSS:
            continue
        gross[(p, a)] = gross.get((p, a), 0) + abs(q)
        calls.append(dict(op="submit", pid=p, asset=a, qty=q))
    calls += [dict(op="update", t=t0 + 269), dict(op="update", t=t0 + 270), dict(op="update", t=t0 + 1440)]
    return record_calls(seed, t0, quotes, fee, calls, printing=(seed % 4 == 1))


def record_calls(ident, t0, quotes, fee, calls, printing=False, ctor_funds=False, seconds=0.0):
    """Drive the real classes with a given call sequence and record the trace (used by --replay)."""
    ob = Observer()
    evs = []
    with ob.installed():
        rig = BrokerRig(t0, quotes, fee, ob, printing=printing, ctor_funds=ctor_funds, seconds=seconds)
        for c in calls:
            evs.append(rig.apply(dict(c)))
    return dict(id=ident, t0=t0, quote=quotes, fee=fee,
                ev=[to_json_event(e, q) for e, q in _with_quotes(evs, quotes)])


def _amount(rng, avail):
    k = rng.random()
    avail = max(0, int(avail))
    if k < 0.1:
        return -rng.randint(1, 100000)
    if k < 0.2:
        return 0
    if k < 0.3:
        return avail                       # everything, exactly (boundary of a > balance)
    if k < 0.4:
        return avail + 1                   # one mil too much
    return rng.randint(0, max(1, avail))


def _exact(c, avail_mil, avail_float):
    """When the amount is exactly the available balance, hand the code the balance's own float:
    the comparison `amount > balance` is then decided on equal floats, as it is on equal mils in
    the specification (no float noise at the boundary)."""
    if c["a"] == avail_mil and avail_mil > 0:
        c["fa"] = float(avail_float)
    return c


def _with_quotes(evs, q0):
    q = dict((a, dict(v)) for a, v in q0.items())
    for e in evs:
        c = e["call"]
        if c["op"] == "price" and e["err"] == "ok":
            q[c["asset"]] = dict(bid=c["bid"], ask=c["ask"])
        yield e, dict((a, dict(v)) for a, v in q.items())


def to_json_event(ev, quote):
    post = dict((k, v) for k, v in ev["post"].items() if k != "_f")
    post["acctEq"] = post["acctEq"] if isinstance(post["acctEq"], int) else -999999999
    post["acctMv"] = post["acctMv"] if isinstance(post["acctMv"], int) else -999999999
    post["queue"] = dict((p, [dict(oid=o[0], asset=o[1], qty=o[2]) for o in q]) for p, q in post["queue"].items())
    fills = [dict((k, v) for k, v in f.items() if not k.startswith("f_")) for f in ev["fills"]]
    call = dict((k, v) for k, v in ev["call"].items() if k != "fa")
    return dict(call=call, err=ev["err"], fills=fills, marks=ev["marks"], quote=quote, post=post)


def max_abs_int(x):
    if isinstance(x, bool):
        return 0
    if isinstance(x, int):
        return abs(x)
    if isinstance(x, dict):
        return max([0] + [max_abs_int(v) for v in x.values()])
    if isinstance(x, (list, tuple)):
        return max([0] + [max_abs_int(v) for v in x])
    return 0


def write_batch(traces, path):
    with open(path, "w") as fh:
        json.dump(traces, fh)
