"""Pcm engine: decides C09.

Two successive rebalances per scenario on REAL objects: a SimulatedBroker whose holdings were built
by real fills (long, short, assets outside the universe), a real PortfolioConstructionModel with the
real order sizer, FixedWeightPortfolioOptimiser, FixedSignalsAlphaModel (or no alpha model) and a
StaticUniverse.  For every rebalance the harness reads the current state (holdings, equity) from the
real broker, TLC evaluates specs/Pcm.tla on exactly that case (checking PcmSound = C09's statement)
and prints the allocation record, the target and the orders; the real PCM's orders and allocation
record must be identical, and after the real execution handler has submitted the orders and the
broker has filled them at the next open the real holdings must equal TLC's target.
"""
import json
import os
import random
import shutil
from fractions import Fraction

from . import tlc
from .broker_rig import StubHandler, ts
from .common import Report, seed, tier
from .engine_clock import parse_results

ASSETS = ["EQ:A", "EQ:B", "EQ:C", "EQ:D"]
FRI_OPEN = 18264 * 1440 + 870
FRI_CLOSE = 18264 * 1440 + 1260
MON_OPEN = 18267 * 1440 + 870
MON_CLOSE = 18267 * 1440 + 1260
TUE_OPEN = 18268 * 1440 + 870
TUE_CLOSE = 18268 * 1440 + 1260
WED_OPEN = 18269 * 1440 + 870
PRICES = ["3", "7.75", "12.5", "40", "100"]     # (no penny prices: positions of 10^5 shares overflow TLC's integers)


def _q(x):
    """a reported quantity: an int when it is a whole number, else the exact fraction"""
    f = Fraction(float(x))
    return int(f) if f.denominator == 1 else f


def rat(x):
    x = Fraction(x)
    return (x.numerator, x.denominator)


class Scenario(object):
    """One real broker + PCM, driven through two rebalances."""

    def __init__(self, sid, sd):
        from qstrader import settings
        settings.set_print_events(False)
        from qstrader.broker.simulated_broker import SimulatedBroker
        from qstrader.exchange.simulated_exchange import SimulatedExchange
        from qstrader.broker.fee_model.percent_fee_model import PercentFeeModel
        from qstrader.broker.fee_model.zero_fee_model import ZeroFeeModel
        from qstrader.execution.order import Order
        rng = self.rng = random.Random(sd * 100003 + sid)
        self.sid = sid
        self.kind = rng.choice(["dw", "ls"])
        self.fee = rng.choice(["0", "1/8", "1/4"])
        self.par = rng.choice(["0", "1/4", "1/2", "1/8"]) if self.kind == "dw" else rng.choice(["1/2", "1", "2", "5"])
        f = float(Fraction(self.fee))
        fee_model = ZeroFeeModel() if f == 0 else PercentFeeModel(commission_pct=f / 2, tax_pct=f / 2)
        self.nospread = rng.random() < 0.4          # bid = ask: with zero fees a repeated rebalance must trade nothing
        self.prices = dict((a, Fraction(rng.choice(PRICES))) for a in ASSETS)
        self.handler = StubHandler({})
        self._set_quotes()
        start = ts(FRI_OPEN)
        self.broker = SimulatedBroker(start, SimulatedExchange(start), self.handler, account_id="acct",
                                      initial_funds=float(rng.choice([20000, 16384, 10000.5])), fee_model=fee_model)
        self.broker.create_portfolio("pf", "pf")
        self.broker.subscribe_funds_to_portfolio("pf", self.broker.get_account_cash_balance("USD"))
        # build initial holdings with real fills (long, short, possibly none)
        for a in ASSETS:
            if rng.random() < 0.5:
                q = rng.choice([-1, 1]) * rng.randint(1, 30)
                if sid % 5 == 4:
                    # one scenario in five starts from holdings that are not whole units (bought as such through the broker)
                    q = q + [0.5, -0.25, 0.75][(sid // 5 + ASSETS.index(a)) % 3]
                self.broker.submit_order("pf", Order(start, a, q))
        self.broker.update(start)
        self.now = FRI_OPEN

    def _set_quotes(self):
        for a, p in self.prices.items():
            if a in getattr(self, "unquoted", ()):
                self.handler.set(a, float("nan"), float("nan"))        # no price yet (data start later)
                continue
            # bid != ask; the sizers read the ask
            self.handler.set(a, float(p) if self.nospread else (float(p) - 0.25 if p > Fraction(1, 4) else float(p) / 2), float(p))

    def move_prices(self):
        for a in ASSETS:
            if self.rng.random() < 0.6:
                self.prices[a] = Fraction(self.rng.choice(PRICES))
        self._set_quotes()

    def prepare(self, dt, repeat=False):
        """Advance to the rebalance instant, choose universe and alpha (or keep them: repeat), read the real
        state -> case."""
        rng = self.rng
        self.broker.update(ts(dt))
        self.now = dt
        if not repeat:
            self.uni = [a for a in ASSETS if rng.random() < 0.6]
            self.uni_obj = None                     # a new universe object; a repeated rebalance keeps using the same one
            # one scenario in seven: an asset that is not held has NO quote at this rebalance (its data start later).  If
            # it is sized at all - through the universe's zero padding just as through a weight - the sizers refuse
            # (ValueError) and nothing is traded.  Drawn from a second stream: the scenarios themselves stay as they were.
            rng2 = random.Random(self.sid * 7919 + dt)
            self.unquoted = set()
            if rng2.random() < 1 / 7.0:
                free = [a for a in ASSETS if a not in self.broker.get_portfolio_as_dict("pf")]
                if free:
                    self.unquoted = {rng2.choice(free)}
            self._set_quotes()
        k = rng.random()
        if repeat:
            pass
        elif k < 0.1:
            self.alpha = None                       # no alpha model at all: zero weights over the universe
        else:
            keys = [a for a in ASSETS if rng.random() < 0.55]
            for _ in range(100):
                w = dict((a, rng.choice([0, 1, 2, 3, 4, 5]) * (rng.choice([-1, 1]) if self.kind == "ls" else 1)) for a in keys)
                g = sum(abs(v) for v in w.values())
                if g == 0 or g & (g - 1) == 0:
                    break
            else:
                w = dict((a, 0) for a in keys)
            if self.kind == "dw" and keys and rng.random() < 0.06:
                w[rng.choice(keys)] = -1
            self.alpha = w
        if not repeat:
            # the rest of the weight pipeline: an optional risk model and the optimiser
            k = rng.random()
            self.risk = "none" if k < 0.7 else ("zero" if k < 0.85 else "drop")
            self.rset = [a for a in ASSETS if rng.random() < 0.4] if self.risk != "none" else []
            base = self.alpha if self.alpha is not None else dict((a, 0) for a in self.uni)
            nkeys = len([a for a in base if not (self.risk == "drop" and a in self.rset)])
            self.opt, self.scale = "fixed", "1"
            if nkeys in (1, 2, 4) and rng.random() < 0.3:
                self.opt, self.scale = "equal", rng.choice(["1", "1", "1/2", "2", "0"])
        pd_ = self.broker.get_portfolio_as_dict("pf")
        hq = dict((a, Fraction(float(v["quantity"]))) for a, v in pd_.items())
        self.hden = 1
        for q_ in hq.values():
            self.hden = max(self.hden, q_.denominator)
        if self.hden not in (1, 2, 4):
            raise RuntimeError("holding that is not a multiple of a quarter unit: %s" % hq)
        held = dict((ASSETS.index(a) + 1, int(q_ * self.hden)) for a, q_ in hq.items())
        eq = Fraction(float(self.broker.get_portfolio_total_equity("pf")))
        alpha = dict((ASSETS.index(a) + 1, v) for a, v in (self.alpha if self.alpha is not None else dict((a, 0) for a in self.uni)).items())
        return dict(held=held, uni=[ASSETS.index(a) + 1 for a in self.uni], alpha=alpha,
                    px=dict((i + 1, ((0, 0) if a in self.unquoted else rat(self.prices[a]))) for i, a in enumerate(ASSETS)),
                    kind=self.kind, eq=rat(eq), par=rat(Fraction(self.par)), fee=rat(Fraction(self.fee)),
                    risk=self.risk, rset=[ASSETS.index(a) + 1 for a in self.rset], opt=self.opt, scale=rat(Fraction(self.scale)),
                    hden=self.hden)

    def rebalance(self, dt, next_open):
        """The real PCM call, execution and fills.  Returns what happened."""
        from qstrader.alpha_model.fixed_signals import FixedSignalsAlphaModel
        from qstrader.asset.universe.static import StaticUniverse
        from qstrader.execution.execution_algo.market_order import MarketOrderExecutionAlgorithm
        from qstrader.execution.execution_handler import ExecutionHandler
        from qstrader.portcon.optimiser.fixed_weight import FixedWeightPortfolioOptimiser
        from qstrader.portcon.order_sizer.dollar_weighted import DollarWeightedCashBufferedOrderSizer
        from qstrader.portcon.order_sizer.long_short import LongShortLeveragedOrderSizer
        from qstrader.portcon.pcm import PortfolioConstructionModel
        if getattr(self, "uni_obj", None) is None:
            self.uni_list = list(self.uni)          # the caller's own list, handed to the universe as the API expects
            self.uni_obj = StaticUniverse(self.uni_list)
        uni = self.uni_obj
        # one order sizer per scenario, used at every rebalance (as in a backtest)
        if getattr(self, "sizer", None) is None:
            if self.kind == "dw":
                self.sizer = DollarWeightedCashBufferedOrderSizer(self.broker, "pf", self.handler, cash_buffer_percentage=float(Fraction(self.par)))
            else:
                self.sizer = LongShortLeveragedOrderSizer(self.broker, "pf", self.handler, gross_leverage=float(Fraction(self.par)))
        sizer = self.sizer
        alpha = None
        if self.alpha is not None:
            items = list(self.alpha.items())
            self.rng.shuffle(items)                  # dictionary order must not matter
            alpha = FixedSignalsAlphaModel(dict((a, float(v)) for a, v in items))
        from qstrader.portcon.optimiser.equal_weight import EqualWeightPortfolioOptimiser
        from qstrader.risk_model.risk_model import RiskModel
        kind_, rset_ = self.risk, set(self.rset)

        class _Risk(RiskModel):
            """A user risk model: vetoes some assets (weight forced to zero) or removes them from the forecast."""
            def __call__(self, dt, weights):
                if kind_ == "zero":
                    return dict((a, (0.0 if a in rset_ else w)) for a, w in weights.items())
                return dict((a, w) for a, w in weights.items() if a not in rset_)
        # one optimiser object per scenario and setting (as in a backtest, where the same object answers every rebalance)
        if not hasattr(self, "_optimisers"):
            self._optimisers = {}
        okey = (self.opt, str(self.scale))
        if okey not in self._optimisers:
            self._optimisers[okey] = FixedWeightPortfolioOptimiser() if self.opt == "fixed" else EqualWeightPortfolioOptimiser(scale=float(Fraction(self.scale)))
        optimiser = self._optimisers[okey]
        # one construction model and one execution handler per scenario (as in a backtest); what changes between
        # rebalances is handed over through their public attributes
        if getattr(self, "pcm", None) is None:
            self.pcm = PortfolioConstructionModel(self.broker, "pf", uni, sizer, optimiser, alpha_model=alpha,
                                                  risk_model=(_Risk() if self.risk != "none" else None))
            self.exec_handler = ExecutionHandler(self.broker, "pf", uni, submit_orders=True, execution_algo=MarketOrderExecutionAlgorithm())
        pcm = self.pcm
        pcm.universe, pcm.optimiser, pcm.alpha_model = uni, optimiser, alpha
        pcm.risk_model = _Risk() if self.risk != "none" else None
        self.exec_handler.universe = uni
        stats = {"target_allocations": []}
        res = dict(err=None)
        try:
            orders = pcm(ts(dt), stats=stats)
        except Exception as e:
            res["err"] = type(e).__name__
            orders = None
        res["alloc"] = stats["target_allocations"]
        if orders is not None:
            res["orders"] = [(o.asset, o.quantity, o.created_dt) for o in orders]
            self.exec_handler(ts(dt), orders)
            from .broker_rig import _pending
            res["pending_after_submit"] = len(_pending(self.broker.open_orders["pf"]))
            res["holdings_before_fill"] = dict((a, _q(v["quantity"])) for a, v in self.broker.get_portfolio_as_dict("pf").items())
            self.broker.update(ts(next_open))
            self.now = next_open
            res["holdings"] = dict((a, _q(v["quantity"])) for a, v in self.broker.get_portfolio_as_dict("pf").items())
        res["universe_after"] = list(uni.get_assets(ts(self.now)))
        return res


def case_tla(c):
    fn = lambda d, f: ("(" + " @@ ".join("%d :> %s" % (k, f(v)) for k, v in sorted(d.items())) + ")") if d else "<<>>"
    return ('[held |-> %s, uni |-> {%s}, alpha |-> %s, px |-> %s, kind |-> "%s", eq |-> <<%d, %d>>, par |-> <<%d, %d>>, '
            'fee |-> <<%d, %d>>, exact |-> TRUE, risk |-> "%s", rset |-> {%s}, opt |-> "%s", scale |-> <<%d, %d>>, hden |-> %d]' % (
                fn(c["held"], str), ", ".join(str(x) for x in c["uni"]), fn(c["alpha"], str),
                fn(c["px"], lambda r: "<<%d, %d>>" % r), c["kind"], c["eq"][0], c["eq"][1], c["par"][0], c["par"][1],
                c["fee"][0], c["fee"][1], c.get("risk", "none"), ", ".join(str(x) for x in c.get("rset", [])), c.get("opt", "fixed"),
                c.get("scale", (1, 1))[0], c.get("scale", (1, 1))[1], c.get("hden", 1)))


def tlc_eval(w, cases, rep, label):
    """TLC on the cases; cases whose arithmetic leaves TLC's 32-bit integers are isolated and answered None."""
    def skip(_c):
        rep.cov["skipped_overflow"] = rep.cov.get("skipped_overflow", 0) + 1
    return tlc.eval_with_bisect(lambda items: _tlc_eval(w, items, rep, label), cases, skip)


def _tlc_eval(w, cases, rep, label):
    with open(os.path.join(w, "PcmCases.tla"), "w") as fh:
        fh.write("---- MODULE PcmCases ----\nEXTENDS Integers, TLC\nCases == <<\n%s\n>>\n====\n" % ",\n".join(case_tla(c) for c in cases))
    with open(os.path.join(w, "p.cfg"), "w") as fh:
        fh.write("SPECIFICATION Spec\nINVARIANT Sound\nCHECK_DEADLOCK FALSE\n")
    r = tlc.run(w, "MC_Pcm", "p.cfg", workers=16, timeout=3000)
    if r.violated == "evaluation-error" and "Overflow" in r.out:
        raise tlc.Overflow()
    rep.add_mc(r, label)
    if not r.ok:
        raise tlc.TLCError("PcmSound violated on a supplied case (spec error): %s" % (r.trace[-1:],))
    got = parse_results(r.out)
    if len(got) != len(cases):
        raise tlc.TLCError("TLC printed %d results for %d cases" % (len(got), len(cases)))
    return [got[i + 1] for i in range(len(cases))]


def judge(sc, case, exp, res, dt):
    """exp = [err, alloc list, target list, orders list] from TLC; res from the real objects."""
    err, alloc, target, orders = exp
    out = []
    sym = lambda i: ASSETS[i - 1]
    exp_alloc = dict((sym(a), float(Fraction(w[0], w[1]))) for a, w in alloc)
    if len(res["alloc"]) != 1:
        out.append(("allocation", "%d allocation records appended, expected 1" % len(res["alloc"])))
    else:
        rec = dict(res["alloc"][0])
        d = rec.pop("Date", None)
        if d != ts(dt):
            out.append(("allocation", "allocation dated %s, expected %s" % (d, ts(dt))))
        if set(rec) != set(exp_alloc):
            out.append(("allocation-keys", "allocation covers %s, expected %s (held %s, universe %s, alpha %s, risk model %s %s, optimiser %s)" % (
                sorted(rec), sorted(exp_alloc), sorted(sym(a) for a in case["held"]), sc.uni, sc.alpha, sc.risk, sc.rset, sc.opt)))
        elif any(float(rec[a]) != exp_alloc[a] for a in rec):
            out.append(("allocation-weights", "allocation %s, expected %s (risk model %s %s, optimiser %s x %s)" % (
                rec, exp_alloc, sc.risk, sc.rset, sc.opt, sc.scale)))
    if err:
        if res["err"] != "ValueError":
            out.append(("outcome", "expected ValueError (negative weight in long-only sizing, or an asset of the full list without a price), got %s" % res["err"]))
        return out
    if res["err"]:
        out.append(("outcome", "PCM raised %s on a valid rebalance" % res["err"]))
        return out
    hden = case.get("hden", 1)
    exp_orders = [(sym(a), _q(Fraction(q, hden))) for a, q in orders]          # the model states orders in 1/hden units
    got_orders = [(a, _q(q)) for a, q, _t in res["orders"]]
    if got_orders != exp_orders:
        what = "orders"
        if sorted(got_orders) == sorted(exp_orders):
            what = "order-sequence"
        elif any(q == 0 for _a, q in got_orders):
            what = "zero-order"
        out.append((what, "orders %s, expected %s (held %s, target %s)" % (
            got_orders, exp_orders, dict((sym(a), _q(Fraction(q, hden))) for a, q in case["held"].items()), dict((sym(a), q) for a, q in target))))
    if any(t != ts(dt) for _a, _q, t in res["orders"]):
        out.append(("order-time", "orders not stamped with the rebalance time"))
    if res["pending_after_submit"] != len(res["orders"]) or res["holdings_before_fill"] != dict((sym(a), _q(Fraction(q, hden))) for a, q in case["held"].items()):
        out.append(("MODEL-closed-hours", "orders submitted at the close were not simply left pending"))
    exp_hold = dict((sym(a), q) for a, q in target if q != 0)
    if res["holdings"] != exp_hold:
        out.append(("holdings-after-fill", "holdings after the fills %s, target %s" % (res["holdings"], exp_hold)))
    return out


def run(prop, replay_file=None):
    rep = Report(prop)
    t, sd = tier(), seed()
    rep.assumptions = ["exact dyadic grid (sizing boundaries are C10/C11's subject); every held asset has a quote; one scenario in seven has an unheld asset without a quote (NaN) at a rebalance",
                       "fixed-weight optimiser; alpha model = fixed dictionary or absent; static universe chosen afresh at the first two rebalances, the third reuses the second's universe object"]
    n = 250 if t == "quick" else 12000
    if replay_file:
        payload = json.load(open(replay_file))
        sids, sd = [payload["scenario"]], payload["seed"]
    else:
        sids = list(range(n))
    w = tlc.scratch()
    nontriv = set()
    try:
        tlc.stage_all(w)
        scs = [Scenario(i, sd) for i in sids]
        # third rebalance: same universe, same alpha, no price move - holdings already on target stay untouched
        for rnd, (dt, nxt) in enumerate([(FRI_CLOSE, MON_OPEN), (MON_CLOSE, TUE_OPEN), (TUE_CLOSE, WED_OPEN)]):
            if rnd == 1:
                for sc in scs:
                    sc.move_prices()
            cases = [sc.prepare(dt, repeat=(rnd == 2)) for sc in scs]
            try:
                exps = tlc_eval(w, cases, rep, "MC_Pcm(rebalance %d)" % (rnd + 1))
            except tlc.TLCError as e:
                rep.machinery.append(str(e)[-1500:])
                break
            for sc, case, exp in zip(scs, cases, exps):
                res = sc.rebalance(dt, nxt)
                if exp is None:
                    continue
                rep.cov["evaluations"] += 1
                pl = rep.cov.setdefault("pipeline_cases", {})
                for key in ("risk=" + case["risk"], "optimiser=" + case["opt"]):
                    pl[key] = pl.get(key, 0) + 1
                if sc.unquoted:
                    rep.cov["rebalances_with_an_unquoted_asset"] = rep.cov.get("rebalances_with_an_unquoted_asset", 0) + 1
                    if exp[0]:
                        rep.cov["of_which_must_be_refused"] = rep.cov.get("of_which_must_be_refused", 0) + 1
                heldset = set(case["held"])
                if heldset - set(case["uni"]) and heldset - set(case["alpha"]) and not exp[0]:
                    nontriv.add((sc.sid, rnd))
                for what, detail in judge(sc, case, exp, res, dt):
                    if what.startswith("MODEL-"):
                        rep.warnings.append(detail)
                        continue
                    rep.violation("pcm|" + what, "%s at rebalance %d of scenario %d (%s sizing): %s" % (what, rnd + 1, sc.sid, sc.kind, detail),
                                  dict(scenario=sc.sid, seed=sd, what=what, detail=detail))
                if sc.sid < 2:
                    rep.sample(dict(rebalance=rnd + 1, sizing=sc.kind, held=case["held"], universe=sc.uni, alpha=sc.alpha,
                                    tlc_target=exp[2], tlc_orders=exp[3], real_orders=[(a, q) for a, q, _ in res.get("orders", [])],
                                    real_holdings_after_fill=res.get("holdings")))
    finally:
        shutil.rmtree(w, ignore_errors=True)
    rep.cov["traces_validated_against_impl"] = len(sids)
    rep.cov["distinct_nontrivial"] = len(nontriv)
    rep.cov["rule"] = ("scenarios drawn by seed: real broker with holdings from real fills (long and short), then two rebalances with a "
                       "price move in between; a rebalance is non-trivial when some held asset is outside the universe and some held "
                       "asset has no alpha weight (liquidation paths), and sizing succeeds; distinct by (scenario, rebalance)")
    rep.cov["exhaustive"] = False
    return rep
