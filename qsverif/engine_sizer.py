"""Sizer engine: decides C10 (dollar-weighted, cash-buffered) and C11 (long/short leveraged).

Design level: TLC enumerates the dyadic grid of MC_SizerGrid and checks that the step-by-step
transcription of each sizer satisfies the declarative statement of its property (SizerSound) and
raises errors exactly where the property says (GErrors).
Conformance: the harness draws cases (the grid, plus realistic non-dyadic parameters), TLC evaluates
the specification on exactly those cases (checking SizerSound again) and prints the admissible
quantities; the real DollarWeightedCashBufferedOrderSizer / LongShortLeveragedOrderSizer are called
with the same inputs and must answer inside the admissible set, or raise where the spec raises.
"""
import math
import os
import random
import shutil
from fractions import Fraction

from . import tlaval, tlc
from .common import Report, seed, tier

ASSETS = ["EQ:A", "EQ:B", "EQ:C", "EQ:D"]


def fr(x):
    return Fraction(x)


def rat(x):
    x = Fraction(x)
    return [x.numerator, x.denominator]


def gen_cases(prop, n, sd):
    rng = random.Random(sd * 7919 + (10 if prop == "C10" else 11))
    kind = "dw" if prop == "C10" else "ls"
    cases = []
    for k in range(n):
        exact = rng.random() < 0.6
        nw = rng.choice([0, 1, 1, 2, 2, 3, 3, 4]) if rng.random() < 0.9 else 0
        if exact:
            eq = rng.choice(["1", "999.75", "1000", "12345.5", "0.5", "4096"])
            fee = rng.choice(["0", "1/64", "1/8", "1/4"])
            px = [rng.choice(["0.25", "3", "7.75", "1000", "12.5", "0.125", "7.0625", "nan"]) if rng.random() < 0.93 else "nan" for _ in range(nw)]
            if kind == "dw":
                par = rng.choice(["0", "1/4", "1/2", "1", "1/64"] + (["-1/4", "5/4"] if rng.random() < 0.3 else []))
                # power-of-two weight sums keep the normalised weights dyadic
                w = _dyadic_weights(rng, nw, signed=False)
            else:
                par = rng.choice(["1/2", "1", "2", "5"] + (["0", "-1"] if rng.random() < 0.3 else []))
                w = _dyadic_weights(rng, nw, signed=True)
            wdiv = 1
        else:
            eq = rng.choice(["1000", "20000", "5000", "687.5", "2500", "12000", "100000"])
            fee = rng.choice(["0", "0.001", "0.0025", "0.02", "0.005"])
            px = [(("%d.%02d" % (rng.randint(0, 199), rng.randint(1, 99))) if rng.random() < 0.7 else
                   rng.choice(["12.345", "0.875", "3.3325", "45.675", "0.0625", "19.995", "101.005"])) if rng.random() < 0.95 else "nan" for _ in range(nw)]    # also sub-cent (adjusted) prices
            if kind == "dw":
                par = rng.choice(["0.05", "0.1", "0.3", "0", "0.025", "0.15", "0.0333", "0.004", "0.125"] + (["-0.01", "1.01", "1.000001", "-0.000000001", "1.000000005"] if rng.random() < 0.25 else []))
                w = [rng.choice([0, 1, 2, 3, 4, 5, 6, 10]) for _ in range(nw)]
                if rng.random() < 0.1 and nw:
                    w[rng.randrange(nw)] = -rng.randint(1, 3)
            else:
                par = rng.choice(["1", "1.5", "2", "0.3", "3", "1.337", "2.5049", "0.004", "0.75"] + (["0", "-0.5", "-0.000000001"] if rng.random() < 0.2 else []))
                w = [rng.choice([-6, -4, -3, -1, 0, 1, 2, 3, 5, 7]) for _ in range(nw)]
            wdiv = rng.choice([1, 10, 100, 100, 10000, 1000000])       # weights may be basis-point sized: only their proportions matter
            if rng.random() < 0.08:
                w = [0] * nw
        cases.append(dict(kind=kind, eq=eq, par=par, fee=fee, w=w, px=px, exact=exact, wdiv=wdiv))
    return cases


def _dyadic_weights(rng, nw, signed):
    for _ in range(200):
        w = [rng.choice([0, 1, 2, 3, 5, 4]) * (rng.choice([-1, 1]) if signed else 1) for _ in range(nw)]
        if rng.random() < 0.05 and not signed and nw:
            w[rng.randrange(nw)] = -1
        g = sum(abs(x) for x in w)
        if g == 0 or (g & (g - 1)) == 0:
            return w
    return [0] * nw


def case_tla(c):
    px = ", ".join("<<0, 0>>" if p == "nan" else "<<%d, %d>>" % tuple(rat(p)) for p in c["px"])
    return ('[kind |-> "%s", eq |-> <<%d, %d>>, par |-> <<%d, %d>>, fee |-> <<%d, %d>>, w |-> <<%s>>, px |-> <<%s>>, exact |-> %s]'
            % (c["kind"], rat(c["eq"])[0], rat(c["eq"])[1], rat(c["par"])[0], rat(c["par"])[1], rat(c["fee"])[0],
               rat(c["fee"])[1], ", ".join(str(x) for x in c["w"]), px, "TRUE" if c["exact"] else "FALSE"))


def cases_module(cases):
    return "---- MODULE SizerCases ----\nEXTENDS Integers\nCases == <<\n%s\n>>\n====\n" % ",\n".join(case_tla(c) for c in cases)


import pandas as _pd
SIZING_DT = _pd.Timestamp("2020-01-03 21:00:00", tz="UTC")


def _at(dt):
    """1 at the sizing instant (in whatever zone it is written), 3 at any other."""
    return 1.0 if dt == SIZING_DT else 3.0


class _Broker(object):
    def __init__(self, equity, fee):
        from qstrader.broker.fee_model.percent_fee_model import PercentFeeModel
        from qstrader.broker.fee_model.zero_fee_model import ZeroFeeModel
        self.equity = equity
        f = float(Fraction(fee))
        # the total rate is split between commission and tax so that both parts are exercised
        self.fee_model = ZeroFeeModel() if f == 0.0 else PercentFeeModel(commission_pct=f / 2.0, tax_pct=f / 2.0)

        # the broker's own clock stands one day BEFORE the instant the sizer is asked about (a hand-assembled pipeline
        # may size ahead of the broker's clock); every price source below quotes three times as much at any instant
        # other than the one asked about
        import pandas as pd
        self.current_dt = SIZING_DT - pd.Timedelta(days=1)

    def get_portfolio_total_equity(self, pid):
        assert pid == "pf"
        return self.equity


class _Handler(object):
    def __init__(self, prices):
        self.prices = prices

    def get_asset_latest_ask_price(self, dt, asset):
        return self.prices[asset] * _at(dt)

    def get_asset_latest_bid_price(self, dt, asset):      # a sizer that reads the bid gets a different number
        return self.prices[asset] * 0.5 * _at(dt)


class _Source(object):
    """A data source for the library's own BacktestDataHandler (get_bid / get_ask)."""
    def __init__(self, prices, factor=1.0):
        self.prices, self.factor = prices, factor

    def get_bid(self, dt, asset):
        return self.prices[asset] * 0.5 * self.factor * _at(dt)

    def get_ask(self, dt, asset):
        return self.prices[asset] * self.factor * _at(dt)


def _real_handler(prices):
    """The library's BacktestDataHandler over a primary source quoting `prices` and a fallback quoting twice as much: the
    sizing price is the handler's ask, i.e. the FIRST source that has one."""
    from qstrader.data.backtest_data_handler import BacktestDataHandler
    dh = BacktestDataHandler(None, data_sources=[_Source(prices), _Source(prices, 2.0)])
    return dh


def _set_prices(dh, prices):
    if isinstance(dh, _Handler):
        dh.prices = prices
    else:
        for src in dh.data_sources:
            src.prices = prices


def call_real(c, pool=None):
    """Returns ('err', class name) or ('q', [quantities in ascending asset order]).  With a pool, the sizer object
    (and its broker / handler) that already served earlier cases with the same kind and parameter is used again."""
    import pandas as pd
    from qstrader.portcon.order_sizer.dollar_weighted import DollarWeightedCashBufferedOrderSizer
    from qstrader.portcon.order_sizer.long_short import LongShortLeveragedOrderSizer
    n = len(c["w"])
    assets = ASSETS[:n]
    prices = dict((a, float("nan") if p == "nan" else float(Fraction(p))) for a, p in zip(assets, c["px"]))
    weights = dict((a, (w / float(c["wdiv"])) if c["wdiv"] != 1 else float(w)) for a, w in zip(assets, c["w"]))
    dt = SIZING_DT
    try:
        key = (c["kind"], c["par"])
        if pool is not None and key in pool:
            sizer, broker, dh, wobj = pool[key]
            fresh = _Broker(float(Fraction(c["eq"])), c["fee"])
            broker.equity, broker.fee_model = fresh.equity, fresh.fee_model
            _set_prices(dh, prices)
        else:
            broker = _Broker(float(Fraction(c["eq"])), c["fee"])
            # every third sizer reads its prices through the library's own data handler with two sources
            dh = _real_handler(prices) if (len(c["w"]) + len(str(c["par"]))) % 3 == 0 else _Handler(prices)
            if c["kind"] == "dw":
                sizer = DollarWeightedCashBufferedOrderSizer(broker, "pf", dh, cash_buffer_percentage=float(Fraction(c["par"])))
            else:
                sizer = LongShortLeveragedOrderSizer(broker, "pf", dh, gross_leverage=float(Fraction(c["par"])))
            wobj = {}
            if pool is not None:
                pool[key] = (sizer, broker, dh, wobj)
        # shuffled insertion order: the result must not depend on it
        items = list(weights.items())
        random.Random(len(items)).shuffle(items)
        if pool is not None:
            # a pooled sizer is handed the SAME dictionary object every time, edited in place by its owner
            wobj.clear()
            wobj.update(items)
            out = sizer(dt, wobj)
        else:
            out = sizer(dt, dict(items))
    except Exception as e:
        return ("err", type(e).__name__)
    if set(out) != set(assets):
        return ("bad", "keys %s" % sorted(out))
    qs = []
    for a in assets:
        q = out[a]["quantity"]
        # "a whole number": any numeric type with an integral value (int, numpy integer, 5.0)
        try:
            whole = not isinstance(q, bool) and float(q) == int(q)
        except (TypeError, ValueError, OverflowError):
            whole = False
        if not whole:
            return ("bad", "quantity %r of %s is not a whole number" % (q, a))
        qs.append(int(q))
    return ("q", qs)


def run(prop, replay_file=None):
    rep = Report(prop)
    t, sd = tier(), seed()
    rep.assumptions = [
        "dyadic-grid cases (exact) must match the single admissible quantity; for non-dyadic parameters the quantity one "
        "below (in magnitude) is also admitted exactly where the exact quotient is a whole number (float boundary)",
        "'estimated fees' = the fee model applied to the pre-cost allocation, as the sizer computes it",
        "prices positive; equity positive",
    ]
    w = tlc.scratch()
    try:
        tlc.stage_all(w)
        if replay_file:
            import json
            cases = [json.load(open(replay_file))["case"]]
        else:
            # design level: the whole dyadic grid
            maxn = 2
            with open(os.path.join(w, "grid.cfg"), "w") as fh:
                fh.write("SPECIFICATION GSpec\nCONSTANT MaxN = %d\nINVARIANT GSound\nINVARIANT GErrors\nCHECK_DEADLOCK FALSE\n" % maxn)
            try:
                r = tlc.run(w, "MC_SizerGrid", "grid.cfg", workers=16, timeout=3000)
                rep.add_mc(r, "MC_SizerGrid(MaxN=%d)" % maxn)
                if not r.ok:
                    rep.machinery.append("the specification itself violates %s on the grid (spec error)" % r.violated)
            except tlc.TLCError as e:
                rep.machinery.append("TLC failed on the grid: %s" % str(e)[-1500:])
            cases = gen_cases(prop, 3000 if t == "quick" else 150000, sd)
        def evaluate(chunk):
            with open(os.path.join(w, "SizerCases.tla"), "w") as fh:
                fh.write(cases_module(chunk))
            with open(os.path.join(w, "cases.cfg"), "w") as fh:
                fh.write("SPECIFICATION Spec\nINVARIANT Sound\nCHECK_DEADLOCK FALSE\n")
            r = tlc.run(w, "MC_Sizer", "cases.cfg", workers=8, timeout=3000)
            if r.violated == "evaluation-error" and "Overflow when computing" in r.out:
                raise tlc.Overflow()
            rep.add_mc(r, "MC_Sizer(%d cases)" % len(chunk))
            if not r.ok:
                raise tlc.TLCError("SizerSound violated on a supplied case (spec error): %s" % (r.trace[-1:],))
            answers = {}
            for v in tlaval.extract_tagged(r.out, "R"):
                answers[v[1]] = v[2]
            if len(answers) != len(chunk):
                raise tlc.TLCError("TLC printed %d answers for %d cases" % (len(answers), len(chunk)))
            return [answers[j] for j in range(1, len(chunk) + 1)]

        def skip(_c):
            rep.cov["skipped_overflow"] = rep.cov.get("skipped_overflow", 0) + 1

        pool = {}
        for k in range(0, len(cases), 4000):
            chunk = cases[k:k + 4000]
            try:
                exps = tlc.eval_with_bisect(evaluate, chunk, skip)
            except tlc.TLCError as e:
                rep.machinery.append(str(e)[-1500:])
                continue
            for j, (c, exp) in enumerate(zip(chunk, exps), 1):
                if exp is None:
                    continue
                got = call_real(c)
                rep.cov["evaluations"] += 1
                ok, why = judge(exp, got)
                if ok:
                    # the same input to a sizer object that has already sized other inputs (other asset sets, prices,
                    # equity): an order sizer lives as long as its backtest and is called at every rebalance
                    again = call_real(c, pool)
                    if again != got:
                        ok, why = judge(exp, again)
                        if ok:
                            ok, why = False, "reuse: a fresh sizer answered %s" % (list(got),)
                        why = "reused-sizer " + why
                        got = again
                if not ok:
                    key = "%s|%s" % (c["kind"], why.split(":")[0])
                    rep.violation(key, "%s; case %s; real sizer answered %s, specification admits %s" % (why, c, got, _show(exp)),
                                  dict(case=c, got=list(got), expected=_show(exp)))
                if k == 0 and j <= 3:
                    rep.sample(dict(case=c, specification=_show(exp), implementation=list(got)))
        nontriv = set()
        for c in cases:
            if len(c["w"]) >= 2 and any(c["w"]) and "nan" not in c["px"]:
                nontriv.add(repr(sorted(c.items())))
        rep.cov["distinct_nontrivial"] = len(nontriv)
        rep.cov["traces_validated_against_impl"] = rep.cov["evaluations"]
        rep.cov["rule"] = ("sizing cases drawn by seed (60% dyadic grid: exact answer required; 40% realistic non-dyadic parameters: "
                           "float-boundary relation); non-trivial = at least two assets, a non-zero weight vector and all prices "
                           "available (quantities actually computed); distinct by full input")
        rep.cov["exhaustive"] = False
    finally:
        shutil.rmtree(w, ignore_errors=True)
    return rep


def _show(exp):
    if "err" in exp:
        return "error %s" % exp["err"]
    return [sorted(s) for s in exp["q"]]


def judge(exp, got):
    if "err" in exp:
        if got[0] != "err":
            return False, "accepted: an input the property says must be rejected was sized"
        if got[1] != exp["err"]:
            return False, "errtype: raised %s, expected %s" % (got[1], exp["err"])
        return True, ""
    if got[0] == "err":
        return False, "rejected: raised %s on a valid input" % got[1]
    if got[0] == "bad":
        return False, "shape: %s" % got[1]
    sets = list(exp["q"])
    if len(sets) != len(got[1]):
        return False, "shape: %d quantities for %d assets" % (len(got[1]), len(sets))
    for i, (s, q) in enumerate(zip(sets, got[1])):
        if q not in s:
            return False, "quantity: asset %d sized %s, admissible %s" % (i + 1, q, sorted(s))
    return True, ""
