"""Run TLC / SANY and parse what they print.  Nothing is kept between runs: every
invocation gets a fresh scratch directory (outside /repo and /verif) that is removed
afterwards."""
import os
import re
import shutil
import subprocess
import tempfile
import time

from . import tlaval

VERIF = os.path.dirname(os.path.dirname(os.path.abspath(__file__)))
SPECS = os.path.join(VERIF, "specs")
JAR = "/opt/veriftools/tla/tla2tools.jar"
DEPS = "/opt/veriftools/tla/CommunityModules-deps.jar"


class TLCError(Exception):
    """The machinery failed (parse error, TLC crash, timeout) - exit status 2 territory."""


class Result(object):
    def __init__(self):
        self.ok = False              # finished without error / violation
        self.violated = None         # name of violated invariant / property, or None
        self.trace = []              # counterexample: list of (action_text, state_dict)
        self.generated = 0
        self.distinct = 0
        self.depth = 0
        self.coverage = {}           # action name -> (distinct, total)
        self.prints = []             # PrintT payloads (raw text)
        self.out = ""
        self.wall = 0.0
        self.deadlock = False

    def brief(self):
        return dict(generated=self.generated, distinct=self.distinct, depth=self.depth,
                    violated=self.violated, wall_s=round(self.wall, 2))


def scratch(prefix="qsv-"):
    base = os.environ.get("QSVERIF_SCRATCH") or tempfile.gettempdir()
    return tempfile.mkdtemp(prefix=prefix, dir=base)


def _java_cmd(heap=None, deque=False, tmpdir=None, stack=None):
    cmd = ["java", "-XX:+UseParallelGC"]
    if stack:
        cmd.append("-Xss%s" % stack)                  # deep recursion over sequences of several hundred elements
    if tmpdir:
        cmd.append("-Djava.io.tmpdir=%s" % tmpdir)     # TLC leaves an empty tlc-<n> directory per run: keep it in the scratch dir
    if heap:
        cmd.append("-Xmx%s" % heap)
    if deque:
        cmd.append("-Dtlc2.tool.queue.IStateQueue=StateDeque")
    cmd += ["-cp", JAR + ":" + DEPS, "tlc2.TLC"]
    return cmd


def stage(workdir, modules, extra_files=None):
    """Copy spec modules (paths relative to specs/, searched recursively by base name)
    into workdir so that TLC resolves EXTENDS/INSTANCE there."""
    index = {}
    for root, _dirs, files in os.walk(SPECS):
        for f in files:
            if f.endswith(".tla") or f.endswith(".cfg"):
                index.setdefault(f, os.path.join(root, f))
    for m in modules:
        src = m if os.path.isabs(m) else index.get(m) or os.path.join(SPECS, m)
        shutil.copy(src, os.path.join(workdir, os.path.basename(src)))
    for name, text in (extra_files or {}).items():
        with open(os.path.join(workdir, name), "w") as fh:
            fh.write(text)


def stage_all(workdir, extra_files=None):
    mods = []
    for root, _dirs, files in os.walk(SPECS):
        for f in files:
            if f.endswith(".tla"):
                mods.append(os.path.join(root, f))
    stage(workdir, mods, extra_files)


_RE_GEN = re.compile(r"(\d+) states generated, (\d+) distinct states found")
_RE_DEPTH = re.compile(r"The depth of the complete state graph search is (\d+)")
_RE_VIOL = re.compile(r"Error: Invariant (\S+) is violated")
_RE_APROP = re.compile(r"Error: Action property (\S+) is violated")
_RE_COV = re.compile(r"^<(\w+) line \d+, col \d+ to line \d+, col \d+ of module (\w+)>: (\d+):(\d+)", re.M)
_RE_STATE_HDR = re.compile(r"^State (\d+): <(.*?)>\s*$", re.M)
_RE_SIMGEN = re.compile(r"The number of states generated: (\d+)")


def run(workdir, module, cfg, workers=16, simulate=None, depth=None, seed=None, coverage=False,
        dump_dot=None, deadlock_off=False, timeout=3600, heap=None, env=None, deque=False,
        extra_args=None, stack=None):
    """Run TLC on workdir/module.tla with workdir/cfg.  Returns Result; raises TLCError
    for machinery failures."""
    meta = os.path.join(workdir, "meta-%d" % int(time.time() * 1e6))
    cmd = _java_cmd(heap, deque, workdir, stack) + ["-workers", str(workers), "-metadir", meta, "-noGenerateSpecTE",
                                    "-config", cfg]
    if simulate:
        cmd += ["-simulate", simulate]
    if depth is not None:
        cmd += ["-depth", str(depth)]
    if seed is not None:
        cmd += ["-seed", str(seed)]
    if coverage:
        cmd += ["-coverage", "1"]
    if dump_dot:
        cmd += ["-dump", "dot,actionlabels", dump_dot]
    if deadlock_off:
        cmd += ["-deadlock"]
    cmd += list(extra_args or [])
    cmd.append(module)
    e = dict(os.environ)
    e.update(env or {})
    # the time-outs written at the call sites were measured on an idle 16-core machine; a loaded one (other checks running
    # next to this one) has been seen to be four times slower
    timeout = timeout * int(os.environ.get("QSVERIF_TIMEOUT_SCALE", "4"))
    t0 = time.time()
    for attempt in (1, 2):
        try:
            p = subprocess.run(cmd, cwd=workdir, env=e, stdout=subprocess.PIPE, stderr=subprocess.STDOUT,
                               timeout=timeout)
        except subprocess.TimeoutExpired:
            raise TLCError("TLC timed out after %ss: %s" % (timeout, " ".join(cmd)))
        finally:
            shutil.rmtree(meta, ignore_errors=True)
        out = p.stdout.decode("utf-8", "replace")
        r = parse_output(out)
        inconclusive = r.violated is None and not r.deadlock and not r.finished and "Overflow when computing" not in out
        if not inconclusive or attempt == 2:
            break
        # neither a verdict nor a recognised evaluation error (seen once on a heavily loaded machine: the JVM gave up
        # within seconds): run the very same command once more before calling it a machinery failure
        time.sleep(5)
    r.wall = time.time() - t0
    r.returncode = p.returncode
    if r.violated is None and not r.deadlock and not r.finished and "Overflow when computing" in out:
        r.violated = "evaluation-error"          # TLC's 32-bit integers: callers isolate and skip the offending case
    if r.violated is None and not r.deadlock and not r.finished:
        raise TLCError("TLC failed (rc=%s):\n%s" % (p.returncode, out[-4000:]))
    r.ok = r.violated is None and not r.deadlock
    return r


def parse_output(out):
    r = Result()
    r.out = out
    r.finished = ("Model checking completed. No error has been found." in out) or \
                 ("The number of states generated:" in out and "Error:" not in out)
    m = None
    for m in _RE_GEN.finditer(out):
        pass
    if m:
        r.generated, r.distinct = int(m.group(1)), int(m.group(2))
    m = _RE_SIMGEN.search(out)
    if m and not r.generated:
        r.generated = int(m.group(1))
    m = _RE_DEPTH.search(out)
    if m:
        r.depth = int(m.group(1))
    m = _RE_VIOL.search(out) or _RE_APROP.search(out)
    if m:
        r.violated = m.group(1)
    elif "Temporal properties were violated" in out or re.search(r"Temporal property \S+ was violated", out):
        mm = re.search(r"Temporal property (\S+) was violated", out)
        r.violated = mm.group(1) if mm else "temporal-property"
    elif "Error: Deadlock reached" in out:
        r.deadlock = True
    elif "is violated" in out and "Error:" in out:
        mm = re.search(r"Error: (.*?) is violated", out)
        r.violated = mm.group(1) if mm else "?"
    elif "Error:" in out and "The behavior up to this point is" in out:
        r.violated = "evaluation-error"
    for mm in _RE_COV.finditer(out):
        r.coverage[mm.group(1)] = (int(mm.group(3)), int(mm.group(4)))
    if r.violated or r.deadlock:
        r.trace = parse_error_trace(out)
    return r


def parse_error_trace(out):
    heads = list(_RE_STATE_HDR.finditer(out))
    tr = []
    for i, h in enumerate(heads):
        end = heads[i + 1].start() if i + 1 < len(heads) else len(out)
        body = out[h.end():end]
        # cut at the first blank line after the conjuncts
        lines = []
        for ln in body.split("\n"):
            if ln.strip() == "" and lines:
                break
            if ln.strip():
                lines.append(ln)
        txt = "\n".join(lines)
        try:
            st = tlaval.parse_state(txt)
        except tlaval.ParseError:
            st = {"_raw": txt}
        tr.append((h.group(2), st))
    return tr


_RE_ACT = re.compile(r"^\\\* <(\w+)(?:\((.*)\))? line \d+", re.M)


def parse_sim_file(path):
    """One behaviour written by -simulate file=...: returns [(action, [args], state)]."""
    txt = open(path).read()
    parts = re.split(r"^\\\* <", txt, flags=re.M)
    out = []
    for part in parts[1:]:
        head, _, rest = part.partition("\n")
        m = re.match(r"(\w+)(?:\((.*)\))? line \d+", head)
        name = m.group(1)
        try:
            args = split_args(m.group(2)) if m.group(2) else []
        except tlaval.ParseError:
            args = None
        body = rest.split("==", 1)[1]
        body = body.split("\n\n\n")[0]
        body = body.replace("=================================================", "")
        out.append((name, args, tlaval.parse_state(body)))
    return out


def split_args(s):
    """Split 'a, <<1,2>>, "x"' at top-level commas and parse each."""
    args, depth, cur, instr = [], 0, [], False
    i = 0
    while i < len(s):
        c = s[i]
        if instr:
            cur.append(c)
            if c == "\\":
                cur.append(s[i + 1])
                i += 1
            elif c == '"':
                instr = False
        elif c == '"':
            instr = True
            cur.append(c)
        elif c in "<[{(":
            depth += 1
            cur.append(c)
        elif c in ">]})":
            depth -= 1
            cur.append(c)
        elif c == "," and depth == 0:
            args.append("".join(cur))
            cur = []
        else:
            cur.append(c)
        i += 1
    if "".join(cur).strip():
        args.append("".join(cur))
    return [tlaval.parse_value(a.strip()) for a in args]


def parse_dot(path):
    """Labelled state graph from -dump dot,actionlabels.  Returns (nodes, edges, inits):
    nodes {id: state dict}, edges [(src, dst, action, [args])], inits [ids]."""
    nodes, edges, inits = {}, [], []
    re_node = re.compile(r'^(-?\d+) \[label="(.*?)"(?:,tooltip=".*?")?(,style = filled)?(?:,tooltip=".*")?\]\s*;?$')
    re_edge = re.compile(r'^(-?\d+) -> (-?\d+) \[label="(.*?)"')
    with open(path) as fh:
        for ln in fh:
            ln = ln.rstrip("\n")
            m = re_edge.match(ln)
            if m:
                lab = m.group(3)
                mm = re.match(r"(\w+)(?:\((.*)\))?$", _unesc(lab))
                name = mm.group(1)
                args = split_args(mm.group(2)) if mm.group(2) else []
                edges.append((m.group(1), m.group(2), name, args))
                continue
            m = re_node.match(ln)
            if m:
                nodes[m.group(1)] = tlaval.parse_state(_unesc(m.group(2)))
                if m.group(3):
                    inits.append(m.group(1))
    return nodes, edges, inits


def _unesc(s):
    return s.replace("\\n", "\n").replace('\\"', '"').replace("\\\\", "\\")


def sany(path):
    p = subprocess.run(["java", "-cp", JAR + ":" + DEPS, "tla2sany.SANY", os.path.basename(path)],
                       cwd=os.path.dirname(path), stdout=subprocess.PIPE, stderr=subprocess.STDOUT)
    out = p.stdout.decode("utf-8", "replace")
    ok = p.returncode == 0 and "Semantic errors" not in out and "Parse Error" not in out \
        and "Fatal errors" not in out and "Could not" not in out
    return ok, out


class Overflow(Exception):
    """TLC aborted with an integer overflow while evaluating a batch of cases."""


def eval_with_bisect(run_fn, items, on_skip=None):
    """run_fn(items) -> list of results (same length) or raises Overflow.  A batch in which some case leaves TLC's
    32-bit integers is split until the offending cases are isolated; those are answered None (skipped and counted
    by the caller), never guessed."""
    if not items:
        return []
    try:
        return run_fn(items)
    except Overflow:
        if len(items) == 1:
            if on_skip:
                on_skip(items[0])
            return [None]
        mid = len(items) // 2
        return eval_with_bisect(run_fn, items[:mid], on_skip) + eval_with_bisect(run_fn, items[mid:], on_skip)
