"""./check <property id> [--tier quick|thorough] [--replay <file>]"""
import argparse
import os
import sys
import traceback

from . import common

ENGINES = {}
for _p in ("C01", "C02", "C03", "C04", "C05", "C15"):
    ENGINES[_p] = "engine_broker"
ENGINES["C06"] = "engine_market"
ENGINES["C12"] = "engine_clock"
ENGINES["C13"] = "engine_clock"
ENGINES["C16"] = "engine_signals"
ENGINES["C17"] = "engine_stats"
ENGINES["C09"] = "engine_pcm"
for _p in ("C08", "C14", "C19"):
    ENGINES[_p] = "engine_session"
ENGINES["C07"] = "engine_twin"
ENGINES["C18"] = "engine_twin"
ENGINES["C10"] = "engine_sizer"
ENGINES["C11"] = "engine_sizer"


def main(argv=None):
    ap = argparse.ArgumentParser()
    ap.add_argument("prop")
    ap.add_argument("--tier", choices=["quick", "thorough"])
    ap.add_argument("--replay")
    a = ap.parse_args(argv)
    if a.tier:
        os.environ["VERIF_TIER"] = a.tier
    if a.prop not in ENGINES:
        sys.stderr.write("no check for %s\n" % a.prop)
        return 2
    sys.path.insert(0, common.REPO)          # qstrader is imported from /repo's working tree
    sys.dont_write_bytecode = True
    try:
        mod = __import__("qsverif." + ENGINES[a.prop], fromlist=["run"])
        rep = mod.run(a.prop, replay_file=a.replay)
        rep.is_replay = bool(a.replay)
    except Exception:
        traceback.print_exc()
        sys.stderr.write("MACHINERY-ERROR property=%s (exception in the harness)\n" % a.prop)
        return 2
    return common.finish(rep)


if __name__ == "__main__":
    sys.exit(main())
