"""./check <property id> [--tier quick|thorough] [--replay <file>]"""
import argparse
import os
import sys
import traceback

from . import common

ENGINES = {}
for _p in ("C01", "C02", "C03", "C04", "C05", "C15"):
    ENGINES[_p] = "engine_broker"
ENGINES["C06"] = "engine_market"
ENGINES["C12"] = "engine_clock"
ENGINES["C13"] = "engine_clock"
ENGINES["C16"] = "engine_signals"
ENGINES["C17"] = "engine_stats"
ENGINES["C09"] = "engine_pcm"
for _p in ("C08", "C14", "C19"):
    ENGINES[_p] = "engine_session"
ENGINES["C07"] = "engine_twin"
ENGINES["C18"] = "engine_twin"
ENGINES["C10"] = "engine_sizer"
ENGINES["C11"] = "engine_sizer"


def main(argv=None):
    ap = argparse.ArgumentParser()
    ap.add_argument("prop")
    ap.add_argument("--tier", choices=["quick", "thorough"])
    ap.add_argument("--replay")
    a = ap.parse_args(argv)
    if a.tier:
        os.environ["VERIF_TIER"] = a.tier
    if a.prop not in ENGINES:
        sys.stderr.write("no check for %s\n" % a.prop)
        return 2
    sys.path.insert(0, common.REPO)          # qstrader is imported from /repo's working tree
    sys.dont_write_bytecode = True
    # every scratch file of this run (TLC work directories, CSV markets, child interpreters' temporaries) lives in ONE
    # directory next to the checks - not under /tmp, which other jobs on the machine clean at will - and is removed at the end
    import atexit
    import shutil
    import tempfile
    base = os.environ.get("QSVERIF_SCRATCH") or os.path.join(os.path.dirname(os.path.dirname(os.path.abspath(__file__))), ".scratch")
    os.makedirs(base, exist_ok=True)
    run_dir = tempfile.mkdtemp(prefix="run-%s-" % a.prop, dir=base)
    os.environ["QSVERIF_SCRATCH"] = os.environ["TMPDIR"] = tempfile.tempdir = run_dir
    atexit.register(shutil.rmtree, run_dir, True)
    try:
        mod = __import__("qsverif." + ENGINES[a.prop], fromlist=["run"])
        rep = mod.run(a.prop, replay_file=a.replay)
        rep.is_replay = bool(a.replay)
    except Exception as e:
        traceback.print_exc()
        where = _raised_inside_implementation(e)
        if where is None:
            sys.stderr.write("MACHINERY-ERROR property=%s (exception in the harness)\n" % a.prop)
            return 2
        # the exception was raised by qstrader's own code while the harness was driving it with input the property
        # quantifies over, at a place where the engine does not expect a refusal: the implementation crashed
        rep = common.Report(a.prop)
        rep.assumptions = ["the run was cut short by an exception raised inside the implementation"]
        rep.cov["rule"] = "run aborted by a crash of the implementation"
        rep.violation("crash|%s|%s" % (type(e).__name__, where[1]),
                      "the implementation raised %s: %s at %s (function %s) on input the property quantifies over" % (
                          type(e).__name__, str(e)[:200], where[0], where[1]), dict(kind="crash", where=list(where), error=str(e)[:500]))
    return common.finish(rep)


def _raised_inside_implementation(e):
    """(file:line, function) of the raise point when it lies in <REPO>/qstrader - also through a worker process, whose
    traceback arrives as text - else None."""
    import re
    text = "".join(traceback.format_exception(type(e), e, e.__traceback__))
    # a worker process' traceback arrives as the text of the exception's cause, printed BEFORE the parent's own frames:
    # the first segment is where the exception was really raised
    text = text.split("The above exception was the direct cause of the following exception")[0]
    frames = re.findall(r'File "([^"]+)", line (\d+), in (\S+)', text)
    if not frames:
        return None
    root = os.path.join(os.path.realpath(common.REPO), "qstrader") + os.sep
    mine = os.path.dirname(os.path.realpath(__file__)) + os.sep
    # the deepest frame that is neither a third-party library nor the standard library decides: when it lies in the
    # implementation (which then called into pandas / numpy and failed there), the implementation crashed; when it
    # lies in the harness, the harness did
    for f, line, fn in reversed(frames):
        rf = os.path.realpath(f)
        if rf.startswith(root):
            return ("%s:%s" % (os.path.relpath(rf, os.path.realpath(common.REPO)), line), fn)
        if rf.startswith(mine):
            return None
    return None


if __name__ == "__main__":
    sys.exit(main())
