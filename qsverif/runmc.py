"""Small CLI for developing: python -m qsverif.runmc MC_Broker MC_Broker_big.cfg [k=v ...]"""
import shutil
import sys

from . import tlc


def main():
    mod, cfg = sys.argv[1], sys.argv[2]
    kw = {}
    for a in sys.argv[3:]:
        k, v = a.split("=", 1)
        kw[k] = int(v) if v.isdigit() else v
    w = tlc.scratch()
    try:
        tlc.stage_all(w)
        tlc.stage(w, [cfg])
        try:
            r = tlc.run(w, mod, cfg, **kw)
        except tlc.TLCError as e:
            print(str(e)[-6000:])
            return 2
        print(r.brief())
        if r.violated or r.deadlock:
            print(r.out[-5000:])
        elif kw.get("coverage"):
            for k, v in sorted(r.coverage.items()):
                print(k, v)
    finally:
        shutil.rmtree(w, ignore_errors=True)


if __name__ == "__main__":
    sys.exit(main())
