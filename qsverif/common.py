"""Shared plumbing of the checks: tiers/seeds, evidence files, replay files, known findings and
the VIOLATION / KNOWN-FINDING protocol."""
import hashlib
import json
import os
import sys
import time

VERIF = os.path.dirname(os.path.dirname(os.path.abspath(__file__)))
REPO = os.environ.get("QSVERIF_REPO", "/repo")
EVIDENCE = os.environ.get("QSVERIF_EVIDENCE") or os.path.join(VERIF, "evidence")
REPLAYS = os.path.join(EVIDENCE, "replays")
KNOWN = os.path.join(VERIF, "known_findings.json")


def tier():
    t = os.environ.get("VERIF_TIER", "quick")
    return t if t in ("quick", "thorough") else "quick"


def seed():
    try:
        return int(os.environ.get("VERIF_SEED", "0"))
    except ValueError:
        return 0


class Violation(object):
    """One violation of one property: `key` identifies the failing input / call site / history
    pattern (used to match known findings), `detail` is for the reader, `replay` is what
    ./check <id> --replay <file> re-drives."""

    def __init__(self, prop, key, detail, replay):
        self.prop, self.key, self.detail, self.replay = prop, key, detail, replay


class Report(object):
    def __init__(self, prop, level="model_checking"):
        self.prop = prop
        self.level = level
        self.t0 = time.time()
        self.violations = []
        self.machinery = []         # machinery failures (exit 2)
        self.warnings = []
        self.cov = dict(states=0, transitions=0, traces_validated_against_impl=0, evaluations=0,
                        distinct_nontrivial=0, rule="", samples=[])
        self.assumptions = []

    def add_mc(self, r, name):
        self.cov["states"] += r.distinct
        self.cov["transitions"] += r.generated
        self.cov.setdefault("tlc_runs", []).append(dict(name=name, **r.brief()))
        if r.coverage:
            self.cov.setdefault("action_coverage", {})[name] = dict((k, list(v)) for k, v in r.coverage.items())

    def violation(self, key, detail, replay):
        self.violations.append(Violation(self.prop, key, detail, replay))

    def sample(self, s):
        if len(self.cov["samples"]) < 6:
            self.cov["samples"].append(s)


def load_known():
    if not os.path.exists(KNOWN):
        return dict(open=[], fixed=[])
    with open(KNOWN) as fh:
        return json.load(fh)


def write_replay(prop, payload):
    os.makedirs(REPLAYS, exist_ok=True)
    blob = json.dumps(payload, sort_keys=True, default=str)
    dig = hashlib.sha1(blob.encode()).hexdigest()[:12]
    path = os.path.join(REPLAYS, "%s-%s.json" % (prop, dig))
    with open(path, "w") as fh:
        fh.write(blob)
    return path


def finish(rep):
    """Write evidence, print the protocol lines, return the exit status."""
    known = load_known()
    opened = [k for k in known.get("open", []) if k.get("property") == rep.prop]
    unlisted, listed = [], {}
    for v in rep.violations:
        hit = None
        for k in opened:
            if k.get("key") and k["key"] in v.key:
                hit = k
                break
        if hit is None:
            unlisted.append(v)
        else:
            listed.setdefault(hit["key"], (hit, v))
    cov = dict(rep.cov)
    if not cov["samples"]:
        cov["samples"] = ["(no sample recorded)"]
    ev = dict(property_id=rep.prop, tier=tier(), seed=seed(), level=rep.level, coverage=cov,
              assumptions=rep.assumptions, wall_s=round(time.time() - rep.t0, 2),
              violations=len(unlisted), known_findings=len(listed), warnings=rep.warnings[:20],
              machinery_errors=rep.machinery[:5])
    os.makedirs(EVIDENCE, exist_ok=True)
    target = os.path.join(EVIDENCE, "%s.json" % rep.prop)
    if getattr(rep, "is_replay", False):
        # a replay re-drives ONE recorded input: it must not overwrite the evidence of the property's check
        os.makedirs(REPLAYS, exist_ok=True)
        target = os.path.join(REPLAYS, "%s-last-replay-evidence.json" % rep.prop)
    with open(target, "w") as fh:
        json.dump(ev, fh, indent=1, sort_keys=True, default=str)
    for key, (k, v) in listed.items():
        print("KNOWN-FINDING: property=%s %s" % (rep.prop, k.get("what", key)))
    if rep.machinery:
        for m in rep.machinery[:5]:
            sys.stderr.write("MACHINERY-ERROR property=%s %s\n" % (rep.prop, m))
        return 2
    if unlisted:
        seen = set()
        for v in unlisted:
            if v.key in seen:
                continue
            seen.add(v.key)
            if len(seen) > 5:
                break
            path = write_replay(rep.prop, v.replay)
            print("VIOLATION property=%s replay=%s" % (rep.prop, path))
            print("  " + v.detail[:600])
        return 1
    print("OK property=%s tier=%s states=%s transitions=%s impl_traces=%s evaluations=%s nontrivial=%s wall=%.1fs" % (
        rep.prop, tier(), cov["states"], cov["transitions"], cov["traces_validated_against_impl"],
        cov["evaluations"], cov["distinct_nontrivial"], time.time() - rep.t0))
    return 0
