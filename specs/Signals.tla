------------------------------- MODULE Signals -------------------------------
(***************************************************************************)
(* Rolling-window signals, in the shape of qstrader/signals/*.py:          *)
(*   AssetPriceBuffers  one bounded deque per (asset, lookback)            *)
(*   MomentumSignal, VolatilitySignal  (lookbacks bumped by one)           *)
(*   SMASignal                                                             *)
(*   SignalsCollection.update(dt): first every signal adds the assets that *)
(*   have entered the universe, then every tracked asset gets ONE new      *)
(*   observation (the mid quote at dt) appended to all of its windows.     *)
(*                                                                         *)
(* A tick is one call of update.  EntryAt[a] is the first tick at which    *)
(* asset a belongs to the universe (0 = from the start, -1 = never).       *)
(***************************************************************************)
EXTENDS Integers, Sequences, FiniteSets, Rat

CONSTANTS Assets, Lookbacks, Prices, EntryAt, MaxTicks,
          AssetOrder,   \* the universe's own (deterministic) iteration order: a sequence over Assets
          HashOrder     \* TRUE: newly entered assets are appended in ANY order ( list(set(...) - set(...)) iterates a
                        \* Python set, whose order depends on the interpreter's string-hash seed); FALSE: in the
                        \* universe's own order

Kinds == {"mom", "sma", "vol"}
Cap(k, n) == IF k = "sma" THEN n ELSE n + 1         \* deque(maxlen=...): momentum and volatility are bumped

VARIABLES
  tick,      \* number of updates so far
  tracked,   \* sequence of the assets the signals track, in the order they were added
  win,       \* [asset -> [kind -> [lookback -> Seq(price)]]]  (tracked assets only)
  stream,    \* GHOST [asset -> Seq(price)]  every observation supplied for the asset since it was tracked
  sig        \* derived: [asset -> [kind -> [lookback -> rational]]] what the signal objects answer now

vars == << tick, tracked, win, stream, sig >>

InUniverse(a, t) == EntryAt[a] # -1 /\ EntryAt[a] <= t
TrackedSet == { tracked[i] : i \in 1..Len(tracked) }

\* deque.append on a bounded deque: drop the oldest when full
Push(w, p, cap) == IF Len(w) < cap THEN Append(w, p) ELSE Append(Tail(w), p)

(* ---- the three definitions, on a window ---- *)
RECURSIVE SumSeq(_)
SumSeq(s) == IF s = << >> THEN 0 ELSE Head(s) + SumSeq(Tail(s))
RECURSIVE RSumSeq(_)
RSumSeq(s) == IF s = << >> THEN RInt(0) ELSE RAddS(Head(s), RSumSeq(Tail(s)))

Returns(w) == [i \in 1..(Len(w) - 1) |-> R(w[i + 1] - w[i], w[i])]           \* simple returns
Momentum(w) == IF Len(w) < 2 THEN RInt(0) ELSE RNorm(R(w[Len(w)] - w[1], w[1]))        \* last / first - 1
SMA(w)      == IF Len(w) = 0 THEN << 0, 0 >> ELSE RNorm(R(SumSeq(w), Len(w)))           \* mean (undefined when empty)
PopVar(rs)  == LET n == Len(rs)
                   m == RMulX(RSumSeq(rs), R(1, n))
               IN  RMulX(RSumSeq([i \in 1..n |-> RMulX(RSubS(rs[i], m), RSubS(rs[i], m))]), R(1, n))
\* volatility SQUARED = 252 * population variance of the simple returns (0 when there is no return yet)
Vol2(w)     == IF Len(w) < 2 THEN RInt(0) ELSE RMulX(RInt(252), PopVar(Returns(w)))

SigOfWindow(k, w) == IF k = "mom" THEN Momentum(w) ELSE IF k = "sma" THEN SMA(w) ELSE Vol2(w)
SigOf(wn) == [a \in DOMAIN wn |-> [k \in Kinds |-> [n \in Lookbacks |-> SigOfWindow(k, wn[a][k][n])]]]

EmptyWins == [k \in Kinds |-> [n \in Lookbacks |-> << >>]]

Init ==
  /\ tick = 0
  /\ tracked = SelectSeq(AssetOrder, LAMBDA a : InUniverse(a, 0))          \* universe.get_assets(start)
  /\ win = [a \in {x \in Assets : InUniverse(x, 0)} |-> EmptyWins]
  /\ stream = [a \in {x \in Assets : InUniverse(x, 0)} |-> << >>]
  /\ sig = SigOf(win)

\* one call of SignalsCollection.update with mid quotes px (a function on Assets)
Update(px) ==
  /\ tick < MaxTicks
  /\ tick' = tick + 1
  /\ LET newly == { a \in Assets : InUniverse(a, tick + 1) } \ TrackedSet
     IN  IF HashOrder
         THEN \E order \in { s \in [1..Cardinality(newly) -> newly] : { s[i] : i \in DOMAIN s } = newly } :
                tracked' = tracked \o order
         ELSE tracked' = tracked \o SelectSeq(AssetOrder, LAMBDA a : a \in newly)
  /\ LET T == { tracked'[i] : i \in 1..Len(tracked') }
     IN  /\ win' = [a \in T |-> [k \in Kinds |-> [n \in Lookbacks |->
                       Push(IF a \in DOMAIN win THEN win[a][k][n] ELSE << >>, px[a], Cap(k, n))]]]
         /\ stream' = [a \in T |-> Append(IF a \in DOMAIN stream THEN stream[a] ELSE << >>, px[a])]
  /\ sig' = SigOf(win')

Next == \E px \in [Assets -> Prices] : Update(px)
Spec == Init /\ [][Next]_vars

(* ---- C16 ---- *)
LastK(s, k) == IF Len(s) <= k THEN s ELSE SubSeq(s, Len(s) - k + 1, Len(s))
\* every window holds exactly the most recent cap observations supplied for its asset
C16_Windows == \A a \in DOMAIN win : \A k \in Kinds : \A n \in Lookbacks :
                 win[a][k][n] = LastK(stream[a], Cap(k, n))
\* the answers are the definitions over the trailing window of the SUPPLIED stream
C16_Definitions ==
  \A a \in DOMAIN sig : \A n \in Lookbacks :
    LET s == stream[a] IN
    /\ REq(sig[a]["mom"][n], IF Len(s) < 2 THEN RInt(0)
                              ELSE LET w == LastK(s, n + 1) IN R(w[Len(w)] - w[1], w[1]))
    /\ (Len(s) > 0 => REq(sig[a]["sma"][n], LET w == LastK(s, n) IN R(SumSeq(w), Len(w))))
    /\ (Len(s) < 2 => sig[a]["vol"][n] = RInt(0))
\* exactly one observation per tracked asset per update; a late asset starts empty at its entry tick
C16_Cadence ==
  /\ \A a \in Assets : (a \in DOMAIN stream) = (a \in TrackedSet)
  /\ \A a \in Assets : a \in TrackedSet <=> InUniverse(a, tick)
  /\ \A a \in DOMAIN stream : Len(stream[a]) = tick - (IF EntryAt[a] = 0 THEN 0 ELSE EntryAt[a] - 1)
\* C18: the order in which the signals track assets (which a ranking alpha model uses to break ties) is a
\* function of the configuration, not of a set's iteration order
C18_TrackedOrder ==
  [][ tracked' = tracked \o SelectSeq(AssetOrder, LAMBDA a : InUniverse(a, tick + 1) /\ a \notin TrackedSet) ]_vars

\* lookbacks and assets never influence each other
C16_Independent ==
  [][ \A a \in DOMAIN win : \A k \in Kinds : \A n \in Lookbacks :
        a \in DOMAIN win' /\ win'[a][k][n] = Push(win[a][k][n], stream'[a][Len(stream'[a])], Cap(k, n)) ]_vars
=============================================================================
