------------------------------- MODULE Rat --------------------------------
(* Exact rationals as <<num, den>> with den > 0.  Compared by cross-       *)
(* multiplication, so no normalisation is needed for equality.             *)
EXTENDS Integers

Abs(x) == IF x < 0 THEN -x ELSE x
Sgn(x) == IF x < 0 THEN -1 ELSE IF x > 0 THEN 1 ELSE 0
Max(a, b) == IF a >= b THEN a ELSE b
Min(a, b) == IF a <= b THEN a ELSE b

RECURSIVE Gcd(_, _)
Gcd(a, b) == IF b = 0 THEN Abs(a) ELSE Gcd(b, a % b)

R(n, d)      == IF d < 0 THEN << -n, -d >> ELSE << n, d >>
RNorm(a)     == LET g == Gcd(a[1], a[2]) IN IF g = 0 THEN a ELSE << a[1] \div g, a[2] \div g >>
RInt(n)      == << n, 1 >>
RAdd(a, b)   == RNorm(<< a[1] * b[2] + b[1] * a[2], a[2] * b[2] >>)
RSub(a, b)   == RNorm(<< a[1] * b[2] - b[1] * a[2], a[2] * b[2] >>)
RMul(a, b)   == RNorm(<< a[1] * b[1], a[2] * b[2] >>)
RDiv(a, b)   == RNorm(R(a[1] * b[2], a[2] * b[1]))
\* product with cross-cancellation first (keeps intermediates inside TLC's 32-bit integers)
RMulX(a0, b0) == LET a  == RNorm(a0)
                     b  == RNorm(b0)
                     g1 == Gcd(a[1], b[2])
                     g2 == Gcd(b[1], a[2])
                     n1 == IF g1 = 0 THEN a[1] ELSE a[1] \div g1
                     d2 == IF g1 = 0 THEN b[2] ELSE b[2] \div g1
                     n2 == IF g2 = 0 THEN b[1] ELSE b[1] \div g2
                     d1 == IF g2 = 0 THEN a[2] ELSE a[2] \div g2
                 IN  << n1 * n2, d1 * d2 >>
RDivX(a, b)  == RMulX(a, R(b[2], b[1]))
RAbs(a)      == << Abs(a[1]), a[2] >>
RNeg(a)      == << -a[1], a[2] >>
RSgn(a)      == Sgn(a[1])
\* overflow-conscious variants: least common denominator, integer parts compared first
RAddS(a0, b0) == LET a == RNorm(a0)
                     b == RNorm(b0)
                     g == Gcd(a[2], b[2])
                 IN  RNorm(<< a[1] * (b[2] \div g) + b[1] * (a[2] \div g), (a[2] \div g) * b[2] >>)
RSubS(a, b)   == RAddS(a, RNeg(b))
RCmpS(a0, b0) ==       \* -1, 0, 1
  LET a  == RNorm(a0)
      b  == RNorm(b0)
      qa == a[1] \div a[2]
      qb == b[1] \div b[2]
      ra == a[1] % a[2]
      rb == b[1] % b[2]
  IN  IF qa < qb THEN -1 ELSE IF qa > qb THEN 1
      ELSE Sgn(ra * b[2] - rb * a[2])
RLeS(a, b)    == RCmpS(a, b) <= 0
RLtS(a, b)    == RCmpS(a, b) < 0
REq(a, b)    == a[1] * b[2] = b[1] * a[2]
RLe(a, b)    == a[1] * b[2] <= b[1] * a[2]
RLt(a, b)    == a[1] * b[2] <  b[1] * a[2]
RIsInt(a)    == a[1] % a[2] = 0
RFloor(a)    == a[1] \div a[2]                       \* TLA+ \div is floor division
RTrunc(a)    == IF a[1] >= 0 THEN a[1] \div a[2] ELSE -((-a[1]) \div a[2])
\* integer X is the rational a rounded to the nearest integer (either neighbour on a tie)
RNear(X, a)  == 2 * Abs(X * a[2] - a[1]) <= a[2]
\* integer X is within one unit of the rational a
RWithin1(X, a) == Abs(X * a[2] - a[1]) <= a[2]

\* round half to even of x / unit, for integers (Python's round() on an exact value)
RoundHalfEven(x, unit) ==
  LET lo == x \div unit
      r  == x % unit
  IN  IF 2 * r < unit THEN lo
      ELSE IF 2 * r > unit THEN lo + 1
      ELSE IF lo % 2 = 0 THEN lo ELSE lo + 1

\* h is x rounded to a multiple of unit; either neighbour is accepted on an exact tie
IsRounding(h, x, unit) == h % unit = 0 /\ 2 * Abs(h - x) <= unit
=============================================================================
