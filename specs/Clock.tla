-------------------------------- MODULE Clock --------------------------------
(***************************************************************************)
(* The simulation clock (qstrader/simulation/daily_bday.py) and the four   *)
(* rebalance schedules (qstrader/system/rebalance/*.py), defined from the  *)
(* civil calendar only - nothing pandas-shaped.                            *)
(*                                                                         *)
(* start, end are instants.  The code builds its day lists with            *)
(* pandas.date_range(start, end, freq=...), which keeps the START's time   *)
(* of day on every generated stamp and keeps a stamp iff it is <= end.     *)
(* InRange models exactly that; ByDate is what the properties state; the   *)
(* two agree whenever the end's time of day is not before the start's      *)
(* (the quantifier of C12 / C13), which TLC checks as RangeLemma.          *)
(***************************************************************************)
EXTENDS Integers, Sequences, FiniteSets, Calendar
SX == INSTANCE SequencesExt      \* named: its `Range` would clash with the one defined below

Tod(t) == MinuteOfDay(t)

InRange(start, end, d) == DayOf(start) <= d /\ At(d, Tod(start)) <= end          \* what the code does
ByDate(start, end, d)  == DayOf(start) <= d /\ d <= DayOf(end)                    \* what the property says
RangeLemma(start, end) ==
  Tod(end) >= Tod(start) => \A d \in (DayOf(start) - 1)..(DayOf(end) + 1) : InRange(start, end, d) = ByDate(start, end, d)

\* a finite set of integers as an ascending sequence (SequencesExt's sort: histories of several years stay cheap)
Ascending(S) == SX!SetToSortSeq(S, LAMBDA x, y : x < y)
Span(start, end) == DayOf(start)..DayOf(end)

ClockDays(start, end) == Ascending({ d \in Span(start, end) : IsBDay(d) /\ InRange(start, end, d) })

\* event kinds: 0 pre_market 00:00, 1 market_open 14:30, 2 market_close 21:00, 3 post_market 23:59
DayEvents(d, pre, post) ==
  (IF pre THEN << [t |-> At(d, PRE), k |-> 0] >> ELSE << >>) \o
  << [t |-> At(d, OPEN), k |-> 1], [t |-> At(d, CLOSE), k |-> 2] >> \o
  (IF post THEN << [t |-> At(d, POST), k |-> 3] >> ELSE << >>)

Concat(ss) == SX!FlattenSeq(ss)

ClockEvents(start, end, pre, post) ==
  LET ds == ClockDays(start, end) IN Concat([i \in 1..Len(ds) |-> DayEvents(ds[i], pre, post)])
ClockError(start, end) == end < start

(* ---- schedules: sequences of instants ---- *)
StampOf(premkt) == IF premkt THEN OPEN ELSE CLOSE
Stamped(ds, premkt) == [i \in 1..Len(ds) |-> At(ds[i], StampOf(premkt))]

Weekly(start, end, wd, premkt) ==
  Stamped(Ascending({ d \in Span(start, end) : DoW(d) = wd /\ InRange(start, end, d) }), premkt)
Daily(start, end, premkt) ==
  Stamped(Ascending({ d \in Span(start, end) : IsBDay(d) /\ InRange(start, end, d) }), premkt)
EndOfMonth(start, end, premkt) ==
  Stamped(Ascending({ d \in Span(start, end) : d = LastBDayOfMonth(d) /\ InRange(start, end, d) }), premkt)
\* the start itself if it falls on a business day, else the same time of day on the next business day
BuyAndHold(start) == << At(NextBDay(DayOf(start)), Tod(start)) >>

(* ---- properties ---- *)
StrictlyIncreasing(ts) == \A i \in 1..(Len(ts) - 1) : ts[i] < ts[i + 1]
Times(evs) == [i \in 1..Len(evs) |-> evs[i].t]
Range(s) == { s[i] : i \in 1..Len(s) }

C12_Clock(start, end, pre, post) ==
  LET evs == ClockEvents(start, end, pre, post)
      days == { DayOf(evs[i].t) : i \in 1..Len(evs) }
  IN  /\ StrictlyIncreasing(Times(evs))
      /\ (Tod(end) >= Tod(start) =>
            days = { d \in DayOf(start)..DayOf(end) : IsBDay(d) })            \* exactly the Mon-Fri dates in range
      /\ \A d \in days :
           LET mine == SelectSeq(evs, LAMBDA e : DayOf(e.t) = d)
           IN  mine = DayEvents(d, pre, post)
      /\ \A i \in 1..Len(evs) : evs[i].k = 1 => MinuteOfDay(evs[i].t) = OPEN /\ IsBDay(DayOf(evs[i].t))

C13_Schedules(start, end, wd, premkt) ==
  LET W == Weekly(start, end, wd, premkt)
      Dl == Daily(start, end, premkt)
      M == EndOfMonth(start, end, premkt)
      clock == Range(Times(ClockEvents(start, end, TRUE, TRUE)))
      ok == Tod(end) >= Tod(start)
  IN  /\ StrictlyIncreasing(W) /\ StrictlyIncreasing(Dl) /\ StrictlyIncreasing(M)
      /\ \A t \in Range(W) \cup Range(Dl) \cup Range(M) : MinuteOfDay(t) = StampOf(premkt)
      /\ (ok => { DayOf(t) : t \in Range(W) } = { d \in DayOf(start)..DayOf(end) : DoW(d) = wd })
      /\ (ok => { DayOf(t) : t \in Range(Dl) } = { d \in DayOf(start)..DayOf(end) : IsBDay(d) })
      /\ (ok => { DayOf(t) : t \in Range(M) } =
                { d \in DayOf(start)..DayOf(end) : IsBDay(d) /\ \A e \in (d + 1)..(d + 3) : SameMonth(d, e) => ~IsBDay(e) })
      \* every scheduled instant is an event the clock emits for the same range: none is silently skipped
      /\ Range(W) \subseteq clock /\ Range(Dl) \subseteq clock /\ Range(M) \subseteq clock
      /\ LET b == BuyAndHold(start)[1]
         IN  /\ IsBDay(DayOf(b)) /\ Tod(b) = Tod(start) /\ b >= start
             /\ (IsBDay(DayOf(start)) => b = start)
             /\ \A d \in DayOf(start)..(DayOf(b) - 1) : ~IsBDay(d)
=============================================================================
