----------------------------- MODULE Calendar -----------------------------
(***************************************************************************)
(* Civil calendar over integers.  An INSTANT is a number of minutes since  *)
(* 1970-01-01 00:00 UTC; a DAY is a number of days since 1970-01-01.       *)
(* Nothing here is pandas-shaped: business day = Monday..Friday.           *)
(***************************************************************************)
EXTENDS Integers

DayOf(t)       == t \div 1440
MinuteOfDay(t) == t % 1440
At(d, m)       == d * 1440 + m

\* Monday = 0 ... Sunday = 6 ; day 0 (1970-01-01) was a Thursday
DoW(d)    == (d + 3) % 7
IsBDay(d) == DoW(d) <= 4

PRE   == 0       \* 00:00  pre-market event
OPEN  == 870     \* 14:30  market open
CLOSE == 1260    \* 21:00  market close
POST  == 1439    \* 23:59  post-market event

\* The simulated exchange: Monday-Friday, 14:30 <= time < 21:00
IsOpen(t) == IsBDay(DayOf(t)) /\ OPEN <= MinuteOfDay(t) /\ MinuteOfDay(t) < CLOSE

RECURSIVE NextBDay(_)
NextBDay(d) == IF IsBDay(d) THEN d ELSE NextBDay(d + 1)      \* first business day >= d
RECURSIVE PrevBDay(_)
PrevBDay(d) == IF IsBDay(d) THEN d ELSE PrevBDay(d - 1)      \* last business day <= d

(* Hinnant's civil-from-days: day number -> <<year, month, day>> *)
Civil(z0) ==
  LET z   == z0 + 719468
      era == z \div 146097
      doe == z - era * 146097
      yoe == (doe - doe \div 1460 + doe \div 36524 - doe \div 146096) \div 365
      y   == yoe + era * 400
      doy == doe - (365 * yoe + yoe \div 4 - yoe \div 100)
      mp  == (5 * doy + 2) \div 153
      d   == doy - (153 * mp + 2) \div 5 + 1
      m   == IF mp < 10 THEN mp + 3 ELSE mp - 9
  IN  << IF m <= 2 THEN y + 1 ELSE y, m, d >>

(* days-from-civil: <<year, month, day>> -> day number *)
DaysFromCivil(y0, m, d) ==
  LET y   == IF m <= 2 THEN y0 - 1 ELSE y0
      era == y \div 400
      yoe == y - era * 400
      doy == (153 * (IF m > 2 THEN m - 3 ELSE m + 9) + 2) \div 5 + d - 1
      doe == yoe * 365 + yoe \div 4 - yoe \div 100 + doy
  IN  era * 146097 + doe - 719468

YearOf(d)  == Civil(d)[1]
MonthOf(d) == Civil(d)[2]
DomOf(d)   == Civil(d)[3]
SameMonth(d1, d2) == YearOf(d1) = YearOf(d2) /\ MonthOf(d1) = MonthOf(d2)

\* last business day of the month containing day d
RECURSIVE LastDayOfMonth(_)
LastDayOfMonth(d) == IF SameMonth(d, d + 1) THEN LastDayOfMonth(d + 1) ELSE d
LastBDayOfMonth(d) == PrevBDay(LastDayOfMonth(d))

\* ISO week number and ISO year of day d  (weeks start on Monday; week 1 holds 4 Jan)
IsoYearWeek(d) ==
  LET thu  == d - DoW(d) + 3                 \* Thursday of d's ISO week
      y    == YearOf(thu)
      jan1 == DaysFromCivil(y, 1, 1)
  IN  << y, (thu - jan1) \div 7 + 1 >>
=============================================================================
