----------------------------- MODULE MC_Market -----------------------------
(* Every bar file over four candidate days (Thu, Fri, Mon, Wed: a weekend   *)
(* and a one-day gap).  A file is coded by one digit per day: 0 = no row,   *)
(* 1..8 = row present, (digit-1) is a bit mask of the MISSING cells         *)
(* (1 = open, 2 = close, 4 = adjusted close).  Every present cell holds a   *)
(* price unique to that cell, so that answering from a wrong row or column  *)
(* changes the answer.                                                      *)
EXTENDS Market, TLC, MarketCases

CONSTANTS Codes      \* set of file codes <<c1, c2, c3, c4>> to enumerate (all 9^4 - 1 in the thorough tier)

D == << 18263, 18264, 18267, 18269 >>       \* 2020-01-02 Thu, 01-03 Fri, 01-06 Mon, 01-08 Wed

Cell(i, col, missing) == IF missing THEN NaN ELSE << 16 * i + col, 1 >>
RowOf(i, c) == [o |-> Cell(i, 1, ((c - 1) % 2) = 1),
                c |-> Cell(i, 5, (((c - 1) \div 2) % 2) = 1),
                a |-> Cell(i, 3, (((c - 1) \div 4) % 2) = 1)]
FileOf(code) == [d \in { D[i] : i \in { j \in 1..4 : code[j] # 0 } } |->
                   LET i == CHOOSE j \in 1..4 : D[j] = d IN RowOf(i, code[i])]

MCInstants ==
  { At(18262, 720) } \cup                                                   \* before the first candidate bar
  UNION { { At(D[i], 869), At(D[i], 870), At(D[i], 1259), At(D[i], 1260), At(D[i], 1261) } : i \in 1..4 } \cup
  { At(18263, 0), At(18264, 1380), At(18265, 720), At(18266, 870), At(18268, 900), At(18270, 600), At(18290, 870) }

VARIABLES code, adjust, q, ans

Init == code \in Codes /\ adjust \in BOOLEAN /\ q = 0 /\ ans = NaN
Query(t) == /\ q = 0
            /\ q' = t /\ ans' = PadLookup(FileOf(code), adjust, t)
            /\ UNCHANGED << code, adjust >>
            /\ PrintT(<< "Q", code, adjust, t, ans' >>)
Next == \E t \in MCInstants : Query(t)
Spec == Init /\ [][Next]_<< code, adjust, q, ans >>

\* ---- two data sources behind one handler: the first non-missing answer wins (codes given as 8-tuples) ----
Pair1(c) == << c[1], c[2], c[3], c[4] >>
Pair2(c) == << c[5], c[6], c[7], c[8] >>
HQuery(t) == /\ q = 0 /\ Len(code) = 8
             /\ q' = t /\ ans' = HandlerBid(<< FileOf(Pair1(code)), FileOf(Pair2(code)) >>, adjust, t)
             /\ UNCHANGED << code, adjust >>
             /\ PrintT(<< "H", code, adjust, t, ans' >>)
HNext == \E t \in MCInstants : HQuery(t)
HSpec == Init /\ [][HNext]_<< code, adjust, q, ans >>
\* the handler's answer is the first source's quote unless that is missing, then the second's
InvHandler == (q # 0 /\ Len(code) = 8) =>
                 LET a1 == Quote(FileOf(Pair1(code)), adjust, q)
                     a2 == Quote(FileOf(Pair2(code)), adjust, q)
                 IN  SameVal(ans, IF IsNaN(a1) THEN a2 ELSE a1)

InvEquals      == q # 0 => C06_Equals(FileOf(code), adjust, q)
InvPointInTime == q # 0 => C06_PointInTime(FileOf(code), adjust, q)
InvNaNBefore   == q # 0 => C06_NaNBefore(FileOf(code), adjust, q)
InvAnswer      == q # 0 => SameVal(ans, Quote(FileOf(code), adjust, q))
=============================================================================
