---------------------------- MODULE MC_StatsLong -----------------------------
(* Long equity curves (hundreds of observations over a handful of price     *)
(* levels): only the part of Stats.tla whose exact rationals stay small is   *)
(* evaluated - compounded returns (= value / first value), the high-water-   *)
(* mark loop, drawdowns, their maximum and the longest under-water run.      *)
(* A running maximum over the WHOLE history, however long ago the peak was.  *)
EXTENDS Stats, StatsCases, TLC
VARIABLES i, out
Init == i \in 1..Len(Cases) /\ out = 0
X == Cases[i][2]
Eval == /\ out = 0 /\ out' = 1 /\ i' = i
        /\ LET cm == CumOf(Returns(X))
               dd == DrawdownsOp(cm)
           IN  PrintT(<< "L", i, RMaxSeq(dd), Duration(dd), dd[Len(dd)], cm[Len(cm)] >>)
Spec == Init /\ [][Eval]_<< i, out >>
InvDrawdowns == C17_Drawdowns(X)
InvCum       == C17_CumIsRatio(X)
=============================================================================
