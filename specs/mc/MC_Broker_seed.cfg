SPECIFICATION Spec
CONSTANTS
  Assets = {"A", "B"}
  Bug = "none"
  MaxDepth = 6
  FeeChoice = 1
  PfLevel = FALSE
  Seeded = FALSE
CONSTRAINT Bound
VIEW View
INVARIANT NotSeed
CHECK_DEADLOCK FALSE
