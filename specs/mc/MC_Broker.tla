----------------------------- MODULE MC_Broker -----------------------------
(* Bounded instances of Broker.  The constants are definitions here         *)
(* because a .cfg file cannot hold negative numbers.                        *)
(*                                                                          *)
(* 32-bit budget: cash <= 3 * 1 000 500 mil; price * qty <= 10 750 * 12;    *)
(* rational numerators <= totals (<= 130 000) * gross quantity (<= 20).     *)
EXTENDS Broker

CONSTANTS MaxDepth, FeeChoice, PfLevel, Seeded,
          Amounts, Qtys, Instants, OrderPids, CashOps, BadQuotes

Fri == 18264                       \* 2020-01-03
Sat == 18265
Mon == 18267
T0  == At(Fri, 0)
MCInstants == { At(Fri, 869), At(Fri, 870), At(Fri, 1259), At(Fri, 1260), At(Sat, 900), At(Mon, 870) }
MCAmounts  == { -1000, 0, 250000, 1000500, 3000000 }
MCQtys     == { -3, -1, 1, 2 }
MCPids     == { "P1", "P2" }
MCAllPids  == { "P1", "P2", "PX" }
MCAmountsSmall == { -1000, 250000, 3000000 }
MCInstantsSmall == { At(Fri, 869), At(Fri, 870), At(Fri, 1260), At(Mon, 870) }
MCQtysSmall == { -3, 1, 2 }
Ghost      == "PX"                 \* an id that is never created
MCQuotes   == << [bid |-> 8000, ask |-> 8250], [bid |-> 10500, ask |-> 10750] >>
MCBadQuotes == << [bid |-> -2250, ask |-> -1750], [bid |-> -250, ask |-> 250] >>
MCFees     == << [kind |-> "zero", c |-> 0, t |-> 0],
                 [kind |-> "percent", c |-> 16, t |-> 0],
                 [kind |-> "percent", c |-> 125, t |-> 16] >>

InitEmpty == InitWith(T0, [a \in Assets |-> MCQuotes[1]], MCFees[FeeChoice])

(* The state after  sub_acct(3000000); create P1; sub_pf(P1, 1000500); create P2;       *)
(* sub_pf(P2, 250000)  written out, so that the depth budget is spent on orders, fills, *)
(* price moves and refusals.  MC_Broker_seed.cfg checks that it is reachable from       *)
(* InitEmpty by exactly those calls.                                                    *)
SeedState ==
  /\ now = T0 /\ master = 1749500 /\ created = << "P1", "P2" >>
  /\ cash = [P1 |-> 1000500, P2 |-> 250000]
  /\ clk = [P1 |-> T0, P2 |-> T0]
  /\ pos = [P1 |-> << >>, P2 |-> << >>]
  /\ hist = [P1 |-> << EvSub(T0, 1000500, 1000500) >>, P2 |-> << EvSub(T0, 250000, 250000) >>]
  /\ queue = [P1 |-> << >>, P2 |-> << >>]
  /\ quote = [a \in Assets |-> MCQuotes[1]] /\ fee = MCFees[FeeChoice]
  /\ ledger = [P1 |-> [in |-> 1000500, out |-> 0, cost |-> 0], P2 |-> [in |-> 250000, out |-> 0, cost |-> 0]]
  /\ ext = [in |-> 3000000, out |-> 0]
  /\ net = [P1 |-> [a \in Assets |-> 0], P2 |-> [a \in Assets |-> 0]]
  /\ seen = [P1 |-> [a \in Assets |-> 0], P2 |-> [a \in Assets |-> 0]]
  /\ oidNext = 1 /\ done = {}
InitSeeded == SeedState /\ err = "ok" /\ batch = << >> /\ call = [op |-> "init"]
NotSeed == ~SeedState

Init == IF Seeded THEN InitSeeded ELSE InitEmpty

Next ==
  \/ CashOps /\ \E a \in Amounts : SubscribeAccount(a)
  \/ CashOps /\ \E a \in Amounts : WithdrawAccount(a)
  \/ CashOps /\ \E p \in MCPids : CreatePortfolio(p)
  \/ CashOps /\ \E p \in MCPids \cup {Ghost}, a \in Amounts : SubscribePortfolio(p, a)
  \/ CashOps /\ \E p \in MCPids \cup {Ghost}, a \in Amounts : WithdrawPortfolio(p, a)
  \/ \E p \in OrderPids, a \in Assets, q \in Qtys : SubmitOrder(p, a, q)
  \/ \E t \in Instants : QuotesSane /\ Update(t)
  \/ \E a \in Assets, i \in 1..Len(MCQuotes) : PriceMove(a, MCQuotes[i].bid, MCQuotes[i].ask)
  \* a held asset quoted at a negative / zero mid (corrupt data): the next clock update must be refused as a whole
  \/ BadQuotes /\ \E a \in Assets, i \in 1..Len(MCBadQuotes) :
        (\E p \in PSet : a \in DOMAIN pos[p]) /\ PriceMove(a, MCBadQuotes[i].bid, MCBadQuotes[i].ask)
  \/ PfLevel /\ \E p \in MCPids, t \in Instants, a \in {-1000, 250000} : PfSubscribe(p, t, a)
  \/ PfLevel /\ \E p \in MCPids, t \in Instants, a \in {-1000, 250000, 1000500} : PfWithdraw(p, t, a)
  \/ PfLevel /\ \E p \in MCPids, a \in Assets, px \in {-1000, 9125}, t \in Instants : PfMark(p, a, px, t)
  \/ PfLevel /\ \E p \in MCPids, a \in Assets, q \in {-1, 2}, t \in Instants : PfTransact(p, a, q, 9000, 125, t)

Spec == Init /\ [][Next]_vars

Bound == TLCGet("level") <= MaxDepth
\* err, call and batch only describe the last step; hiding them merges states that differ in nothing else
View == << now, master, created, cash, clk, pos, hist, queue, quote, fee, ledger, ext, net, seen, oidNext, done >>

\* vacuity probes: each must be reported VIOLATED by a run that looks for it
Probe_Flip     == ~ \E p \in PSet : \E k \in 1..Len(batch) :
                      batch[k].pid = p /\ net[p][batch[k].asset] * (net[p][batch[k].asset] - batch[k].qty) < 0
=============================================================================
