---------------------------- MODULE MC_Position -----------------------------
(* One position in isolation: every sequence of up to MaxFills fills (any   *)
(* sign pattern: long, short, flips through zero, close-to-zero-and-reopen) *)
(* interleaved with any number of marks.  Decides C03's identities on every *)
(* control path of Position.tla with exact rationals.                       *)
EXTENDS Position, TLC

CONSTANTS MaxFills,
          Direct      \* TRUE: a Position object used directly (it survives being flat and is traded again);
                      \* FALSE: through the PositionHandler (deleted at zero, a later fill opens a fresh record)

Qs == { -3, -1, 1, 2 }
Ps == { 8000, 10500, 12250 }
Cs == { -125, 0, 125, 1040 }     \* a negative commission is a rebate ("any commissions")

VARIABLES P, n, last,     \* the position (NoPos when absent), number of fills so far, last step kind
          view            \* derived: what the Position object's properties must answer
vars == << P, n, last, view >>

ViewOf(X) == IF X = NoPos THEN [none |-> TRUE]
             ELSE [net |-> Net(X), mv |-> MarketValue(X), avg |-> AvgPrice(X), rpnl |-> Realised(X),
                   upnl |-> Unrealised(X), tpnl |-> Total(X), px |-> X.px]

Held == P # NoPos
Init == P = NoPos /\ n = 0 /\ last = "init" /\ view = ViewOf(NoPos)

Fill(q, p, c) ==
  /\ n < MaxFills
  /\ IF Direct
     THEN P' = IF Held THEN Transact(P, q, p, c, n + 1) ELSE OpenFrom(q, p, c, n + 1)
     ELSE LET ps == IF Held THEN ("X" :> P) ELSE << >>
              r  == TransactPosition(ps, "X", q, p, c, n + 1)
          IN  P' = IF "X" \in DOMAIN r THEN r["X"] ELSE NoPos
  /\ n' = n + 1 /\ last' = "fill" /\ view' = ViewOf(P')
MarkTo(p) == Held /\ P' = Mark(P, p, n) /\ n' = n /\ last' = "mark" /\ view' = ViewOf(P')

Next == (\E q \in Qs, p \in Ps, c \in Cs : Fill(q, p, c)) \/ (\E p \in Ps : MarkTo(p))
Spec == Init /\ [][Next]_vars

C03_Identities == Held => PnlReconciles(P) /\ (Direct \/ Net(P) # 0)
\* vacuity probe for the direct mode: flat and traded again
NeverRetradedFromFlat == ~(Direct /\ Held /\ P.bq > 0 /\ P.sq > 0 /\ Net(P) # 0 /\ n >= 3)
C03_Mark == [][ last' = "mark" => /\ REq(Realised(P'), Realised(P)) /\ Net(P') = Net(P)
                                  /\ P'.bq = P.bq /\ P'.sq = P.sq /\ P'.paid = P.paid /\ P'.fees = P.fees ]_vars
\* HOMOGENEITY, the lemma behind the fractional-quantity replays: quantities x 2 at prices / 2 (same money totals,
\* same commissions) is a position with the same realised, unrealised and total P&L and the same market value, twice
\* the net quantity and half the average price.  Checked wherever the current price is a whole number of mils when halved.
Doubled(X) == [X EXCEPT !.bq = 2 * @, !.sq = 2 * @, !.px = @ \div 2]
C03_Homogeneous ==
  (Held /\ P.px % 2 = 0) =>
    LET Q == Doubled(P) IN
    /\ REq(Realised(Q), Realised(P)) /\ REq(Unrealised(Q), Unrealised(P)) /\ REq(Total(Q), Total(P))
    /\ MarketValue(Q) = MarketValue(P) /\ Net(Q) = 2 * Net(P)
    /\ REq(RMul(AvgPrice(Q), RInt(2)), AvgPrice(P))
\* vacuity probes (each must be REFUTED by a run that looks for it)
NeverFlipped == ~(Held /\ P.bq > 0 /\ P.sq > 0 /\ Net(P) < 0)
NeverReopened == ~(Held /\ n >= 3 /\ P.bq + P.sq <= 3 /\ n > P.bq + P.sq)
View == << P, n >>
SimView == << P, n, last, view >>
=============================================================================
