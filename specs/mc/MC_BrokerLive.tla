---------------------------- MODULE MC_BrokerLive ----------------------------
(* Liveness of order filling (the progress side of C04): on an instance that *)
(* is finite WITHOUT a depth constraint (at most MaxOrders submissions, no    *)
(* transfers), under weak fairness of "the clock reaches an instant in        *)
(* exchange hours", every submitted order is eventually filled - and, by the  *)
(* safety properties, exactly once.  A state constraint could hide a          *)
(* non-progress cycle, so none is used here.                                  *)
EXTENDS Broker

CONSTANT MaxOrders

Fri == 18264
Mon == 18267
T0  == At(Fri, 0)
LInstants == { At(Fri, 869), At(Fri, 870), At(Fri, 1260), At(Mon, 870) }
LQuotes   == << [bid |-> 8000, ask |-> 8250], [bid |-> 10500, ask |-> 10750] >>
LFee      == [kind |-> "percent", c |-> 125, t |-> 0]

Init ==
  /\ now = T0 /\ master = 0 /\ created = << "P1", "P2" >>
  /\ cash = [P1 |-> 1000500, P2 |-> 250000] /\ clk = [P1 |-> T0, P2 |-> T0]
  /\ pos = [P1 |-> << >>, P2 |-> << >>]
  /\ hist = [P1 |-> << EvSub(T0, 1000500, 1000500) >>, P2 |-> << EvSub(T0, 250000, 250000) >>]
  /\ queue = [P1 |-> << >>, P2 |-> << >>]
  /\ quote = [a \in Assets |-> LQuotes[1]] /\ fee = LFee /\ err = "ok"
  /\ ledger = [P1 |-> [in |-> 1000500, out |-> 0, cost |-> 0], P2 |-> [in |-> 250000, out |-> 0, cost |-> 0]]
  /\ ext = [in |-> 1250500, out |-> 0]
  /\ net = [P1 |-> [a \in Assets |-> 0], P2 |-> [a \in Assets |-> 0]]
  /\ seen = [P1 |-> [a \in Assets |-> 0], P2 |-> [a \in Assets |-> 0]]
  /\ oidNext = 1 /\ done = {} /\ batch = << >> /\ call = [op |-> "init"]

OpenUpdate == \E t \in { x \in LInstants : IsOpen(x) } : Update(t) /\ t >= now
Next ==
  \/ oidNext <= MaxOrders /\ \E p \in {"P1", "P2"}, a \in Assets, q \in {-1, 2} : SubmitOrder(p, a, q)
  \/ \E t \in LInstants : Update(t)
  \/ \E a \in Assets, i \in 1..Len(LQuotes) : PriceMove(a, LQuotes[i].bid, LQuotes[i].ask)

Spec == Init /\ [][Next]_vars /\ WF_vars(OpenUpdate)
SpecNoFairness == Init /\ [][Next]_vars

\* every order that is pending is eventually filled
C04_EventuallyFilled == \A o \in 1..MaxOrders : (o \in Pending) ~> (o \in done)
\* and stays filled, never pending again
C04_FilledForGood == \A o \in 1..MaxOrders : [](o \in done => [](o \in done /\ o \notin Pending))
=============================================================================
