---------------------------- MODULE MC_BrokerObs ----------------------------
(* MC_Broker plus two derived variables that make every behaviour a complete *)
(* test oracle: what the public getters must answer after each call (obs)    *)
(* and which positions an Update re-marks, at which price (marks).  Used for *)
(* -simulate and for the dot dump that are replayed into the real classes.   *)
EXTENDS MC_Broker

VARIABLES obs, pnl, marks

InitObs == Init /\ obs = Observe /\ pnl = PnlTotalsOf(PSet, pos) /\ marks = {}
NextObs ==
  /\ Next
  /\ obs' = ObserveOf(DOMAIN cash', cash', pos')
  /\ pnl' = PnlTotalsOf(DOMAIN cash', pos')
  /\ marks' = IF call'.op = "update" /\ err' = "ok" THEN ExpectedMarks
              ELSE IF call'.op = "pf_mark" /\ err' = "ok" /\ call'.asset \in DOMAIN pos[call'.pid]
                   THEN { << call'.pid, call'.asset, call'.px >> }
              ELSE {}
SpecObs == InitObs /\ [][NextObs]_<< vars, obs, pnl, marks >>
=============================================================================
