----------------------------- MODULE MC_Sizer ------------------------------
(* Cases mode: evaluate the harness-supplied cases, check SizerSound and     *)
(* print every answer (the oracle of the conformance run).                  *)
EXTENDS Sizer, SizerCases, TLC

VARIABLES i, res
Init == i \in 1..Len(Cases) /\ res = [none |-> TRUE]
Eval == /\ "none" \in DOMAIN res
        /\ res' = Size(Cases[i]) /\ i' = i
        /\ PrintT(<< "R", i, res' >>)
Spec == Init /\ [][Eval]_<< i, res >>
Sound == SizerSound(Cases[i])

=============================================================================
