SPECIFICATION Spec
CONSTANTS
  Assets = {"A", "B"}
  Bug = "none"
  MaxDepth = 6
  FeeChoice = 3
  PfLevel = FALSE
  Seeded = TRUE
  Amounts <- MCAmountsSmall
  Qtys <- MCQtys
  Instants <- MCInstantsSmall
  OrderPids <- MCPids
  CashOps = FALSE
  BadQuotes = FALSE
CONSTRAINT Bound
VIEW View
INVARIANT ClocksOrdered
INVARIANT C01_Ledger
INVARIANT C01_ZeroSum
INVARIANT C01_History
INVARIANT C01_Totals
INVARIANT C02_Holdings
INVARIANT C03_Pnl
INVARIANT C04_Status
PROPERTY C01_OnlyBy
PROPERTY C03_MarkOnlyUnrealised
PROPERTY C04_Step
PROPERTY C05_Fills
PROPERTY C15_Rejected
CHECK_DEADLOCK FALSE
