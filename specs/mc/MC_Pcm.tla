------------------------------- MODULE MC_Pcm -------------------------------
EXTENDS Pcm, PcmCases, TLC
VARIABLES i, out
Init == i \in 1..Len(Cases) /\ out = 0
FnList(f) == LET as == Ascending(DOMAIN f) IN [k \in 1..Len(as) |-> << as[k], f[as[k]] >>]
Eval == /\ out = 0 /\ out' = 1 /\ i' = i
        /\ LET r  == Call(Cases[i])
               tq == [a \in FullAssets(Cases[i]) |-> CHOOSE x \in r.target[a] : TRUE]      \* unique on the exact grid
           IN  PrintT(<< "R", i, IF "err" \in DOMAIN r THEN 1 ELSE 0, FnList(r.recorded),
                         IF "err" \in DOMAIN r THEN << >> ELSE FnList(tq),
                         IF "err" \in DOMAIN r THEN << >> ELSE Orders(Cases[i], tq) >>)
Spec == Init /\ [][Eval]_<< i, out >>
Sound == PcmSound(Cases[i])
=============================================================================
