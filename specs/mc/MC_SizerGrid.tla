--------------------------- MODULE MC_SizerGrid ----------------------------
(* Grid mode: enumerate the whole dyadic grid below and check SizerSound    *)
(* (design level: the floor / truncate formulas meet C10 / C11 and the      *)
(* errors are raised exactly where the properties say).                     *)
EXTENDS Sizer, TLC
CONSTANT MaxN
GEq   == { <<1, 1>>, <<3999, 4>>, <<1000, 1>>, <<24691, 2>> }           \* 1, 999.75, 1000, 12345.5
GBuf  == { <<0, 1>>, <<1, 4>>, <<1, 2>>, <<1, 1>>, <<-1, 4>>, <<5, 4>> }
GLev  == { <<1, 2>>, <<1, 1>>, <<2, 1>>, <<5, 1>>, <<0, 1>>, <<-1, 1>> }
GFee  == { <<0, 1>>, <<1, 64>>, <<1, 8>> }
GPx   == { <<1, 4>>, <<3, 1>>, <<31, 4>>, <<1000, 1>>, <<0, 0>> }
GWdw  == { 0, 1, 2, 3, 5 }
GWls  == { -3, -1, 0, 1, 2, 3 }
VARIABLE c
GInit == c \in ( [kind : {"dw"}, eq : GEq, par : GBuf, fee : GFee, w : UNION { [1..n -> GWdw \cup {-1}] : n \in 0..MaxN },
                  px : UNION { [1..n -> GPx] : n \in 0..MaxN }, exact : {TRUE}]
                 \cup
                 [kind : {"ls"}, eq : GEq, par : GLev, fee : GFee, w : UNION { [1..n -> GWls] : n \in 0..MaxN },
                  px : UNION { [1..n -> GPx] : n \in 0..MaxN }, exact : {TRUE}] )
         /\ Len(c.w) = Len(c.px)
GSpec == GInit /\ [][UNCHANGED c]_c
GSound == SizerSound(c)
GErrors ==
  LET r == Size(c) IN
  ("err" \in DOMAIN r) <=>
     \/ c.kind = "dw" /\ (RLt(c.par, Zero) \/ RLt(One, c.par))
     \/ c.kind = "ls" /\ RLe(c.par, Zero)
     \/ Len(c.w) > 0 /\ c.kind = "dw" /\ ~(RLt(c.par, Zero) \/ RLt(One, c.par)) /\ \E k \in 1..Len(c.w) : c.w[k] < 0
     \/ Len(c.w) > 0 /\ \E k \in 1..Len(c.w) : IsNaNp(c.px[k])
=============================================================================
