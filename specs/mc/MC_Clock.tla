------------------------------ MODULE MC_Clock ------------------------------
(* Evaluate Clock on the harness-supplied ranges, check C12_Clock,          *)
(* C13_Schedules and RangeLemma on each, and print the event list and the   *)
(* four schedules (flat integer sequences: the oracle of the conformance    *)
(* run).  Clock events are printed as 4 * t + kind.                         *)
EXTENDS Clock, ClockCases, TLC

VARIABLES i, out
Init == i \in 1..Len(Cases) /\ out = 0
C == Cases[i]
Flat(evs) == [j \in 1..Len(evs) |-> 4 * evs[j].t + evs[j].k]
Eval == /\ out = 0 /\ out' = 1 /\ i' = i
        /\ PrintT(<< "R", i, IF ClockError(C[1], C[2]) THEN 1 ELSE 0,
                     IF ClockError(C[1], C[2]) THEN << >> ELSE Flat(ClockEvents(C[1], C[2], C[3], C[4])),
                     Weekly(C[1], C[2], C[5], C[6]), Daily(C[1], C[2], C[6]), EndOfMonth(C[1], C[2], C[6]),
                     BuyAndHold(C[1]) >>)
Spec == Init /\ [][Eval]_<< i, out >>
InvC12   == C[2] >= C[1] => C12_Clock(C[1], C[2], C[3], C[4])
InvC13   == C13_Schedules(C[1], C[2], C[5], C[6])
InvLemma == RangeLemma(C[1], C[2])
=============================================================================
