SPECIFICATION SpecObs
CONSTANTS
  Assets = {"A", "B"}
  Bug = "none"
  MaxDepth = 100
  FeeChoice = 3
  PfLevel = TRUE
  Seeded = TRUE
  Amounts <- MCAmounts
  Qtys <- MCQtys
  Instants <- MCInstants
  OrderPids <- MCAllPids
  CashOps = TRUE
  BadQuotes = FALSE
CHECK_DEADLOCK FALSE
