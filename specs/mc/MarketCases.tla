---------------------------- MODULE MarketCases ----------------------------
(* The set of file codes to enumerate.  The harness regenerates this module *)
(* in its scratch directory (a .cfg file cannot hold tuples); this default  *)
(* is a small hand-picked sample.                                           *)
CaseCodes == { <<1,0,8,3>>, <<0,2,0,0>>, <<5,1,1,1>>, <<0,0,0,1>>, <<2,2,2,2>> }
=============================================================================
