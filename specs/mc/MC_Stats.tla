------------------------------ MODULE MC_Stats ------------------------------
EXTENDS Stats, StatsCases, TLC
VARIABLES i, out
Init == i \in 1..Len(Cases) /\ out = 0
X == Cases[i][2]
RECURSIVE BDaysFrom(_, _)
BDaysFrom(d, n) == IF n = 0 THEN << >> ELSE << NextBDay(d) >> \o BDaysFrom(NextBDay(d) + 1, n - 1)
\* an optional third component k > 0: the k-th business day of the run is a holiday (no observation), so that two curves
\* can share first date, last date and length and still differ in an interior date
Skip == IF Len(Cases[i]) >= 3 THEN Cases[i][3] ELSE 0
Days == IF Skip = 0 THEN BDaysFrom(Cases[i][1], Len(X)) \o << >>
        ELSE LET all == BDaysFrom(Cases[i][1], Len(X) + 1)
             IN  [k \in 1..Len(X) |-> IF k < Skip THEN all[k] ELSE all[k + 1]] \o << >>
AsSeq(kind) == LET agg == Aggregate(kind, X, Days)
                   RECURSIVE Lst(_)
                   Lst(S) == IF S = {} THEN << >> ELSE LET k == CHOOSE y \in S : TRUE IN << << k, agg[k] >> >> \o Lst(S \ {k})
               IN  Lst(DOMAIN agg)
Eval == /\ out = 0 /\ out' = 1 /\ i' = i
        /\ LET rs == Returns(X)
               dd == DrawdownsOp(CumOf(rs))
               ng == Negatives(rs)
               cm == CumOf(rs)
           IN  PrintT(<< "R", i, Days, rs, cm, dd, RMaxSeq(dd), Duration(dd),
                         AsSeq("weekly"), AsSeq("monthly"), AsSeq("yearly"),
                         Mean(rs), PopVar(rs), Len(ng), IF Len(ng) = 0 THEN << 0, 0 >> ELSE PopVar(ng) >>)
Spec == Init /\ [][Eval]_<< i, out >>
InvDrawdowns  == C17_Drawdowns(X)
InvCum        == C17_CumIsRatio(X)
InvAggregates == C17_Aggregates(X, Days)
InvScale      == C17_Scale(X, 3)
=============================================================================
