----------------------------- MODULE MC_Universe -----------------------------
(* Exhaustive over small grids: entry maps of 3 assets over 5 instants (incl. *)
(* "none"), query instants, weight dictionaries of 1-4 keys, three scales.    *)
EXTENDS Universe, TLC
A3 == {1, 2, 3}
Inst == {-1, 100, 101, 102, 200}
Scales == { <<1, 2>>, <<1, 1>>, <<2, 1>> }
Ws == { <<1, 4>>, <<1, 1>>, <<-1, 2>>, <<0, 1>> }
VARIABLES mode, entry, t, scale, w
vars == << mode, entry, t, scale, w >>
Init == \/ /\ mode = "universe" /\ entry \in [A3 -> Inst] /\ t \in {99, 100, 101, 102, 150, 200, 201}
           /\ scale = <<1, 1>> /\ w = << >>
        \/ /\ mode = "optimiser" /\ entry = << >> /\ t = 0 /\ scale \in Scales
           /\ w \in UNION { [K -> Ws] : K \in (SUBSET {1, 2, 3, 4}) \ {{}} }
Spec == Init /\ [][UNCHANGED vars]_vars
FnList(f) == [k \in 1..4 |-> IF k \in DOMAIN f THEN f[k] ELSE << 0, 0 >>]
Inv == IF mode = "universe" THEN C19_Universe(entry, t) ELSE C19_Optimisers(scale, w)
Out == IF mode = "universe"
       THEN PrintT(<< "U", [k \in 1..3 |-> entry[k]], t, [k \in 1..3 |-> IF k \in DynamicUniverse(entry, t) THEN 1 ELSE 0] >>)
       ELSE PrintT(<< "O", scale, FnList(w), FnList(EqualWeight(scale, w)) >>)
=============================================================================
