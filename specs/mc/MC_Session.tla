----------------------------- MODULE MC_Session -----------------------------
(* Runs Session on the supplied configurations, checks the run-level         *)
(* properties in every state and prints the outcome of each finished run    *)
(* (integers only: assets by number, money in mils).                        *)
EXTENDS Session, SessionCases

MCAssetSeq == << "A", "B", "C" >>
MCAssets   == { "A", "B", "C" }

ListOf(S, f(_)) == LET as == CK!Ascending(S) IN [i \in 1..Len(as) |-> f(as[i])]
Nos(S) == { AssetNo(a) : a \in S }
ErrCode(c) == IF c = "none" THEN 0 ELSE IF c = "ValueError" THEN 1 ELSE IF c = "KeyError" THEN 2 ELSE 9

Outcome ==
  << "R", ci, ErrCode(failure.cls), failure.t,
     [i \in 1..Len(curve) |-> << curve[i].t, curve[i].eq >>],
     [i \in 1..Len(allocs) |-> << allocs[i].t,
          LET w == allocs[i].w IN ListOf(Nos(DOMAIN w), LAMBDA n : << n, w[AssetSeq[n]] >>) >>],
     [i \in 1..Len(flog) |-> << flog[i].t, AssetNo(flog[i].asset), flog[i].qty, flog[i].px, flog[i].comm >>],
     cash[PID],
     ListOf(Nos(DOMAIN pos[PID]), LAMBDA n : << n, Net(pos[PID][AssetSeq[n]]) >>),
     \* target-allocation table: for each equity date the number of the latest allocation record dated on or
     \* before it (0 = none yet: the row is undefined)
     [i \in 1..Len(curve) |-> Cardinality({ j \in 1..Len(allocs) : allocs[j].t <= curve[i].t })],
     \* C16 (cadence): what each asset's signals must have been fed - one observation per market close already
     \* processed at which the asset belongs to the universe: that close's quote (0 = NaN)
     [n \in 1..Len(AssetSeq) |->
        LET cl == SelectSeq(events, LAMBDA e : e.k = 2 /\ (ek > Len(events) \/ e.t < Ev.t \/ (e.t = Ev.t /\ (pc \in {"rebalance", "exec", "execupd", "equity"}
                                                                                             \/ (pc = "failed" /\ allocs # << >> /\ allocs[Len(allocs)].t = Ev.t))))
                                                /\ AssetSeq[n] \in UniverseAt(e.t))
        IN  [i \in 1..Len(cl) |-> << cl[i].t, QuoteAt(frame[AssetSeq[n]], cl[i].t) >>]],
     \* the first rebalance whose top-N selection hinges on a tie that floating point may break either way (0 = none)
     LET S == { i \in 1..Len(allocs) : allocs[i].amb }
     IN  IF S = {} THEN 0 ELSE allocs[CHOOSE i \in S : \A j \in S : i <= j].t >>

Report == pc \in {"done", "failed"} => PrintT(Outcome)
=============================================================================
