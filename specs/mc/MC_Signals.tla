----------------------------- MODULE MC_Signals -----------------------------
(* Entry maps for the bounded instances (the harness regenerates this module *)
(* from qsverif/engine_signals.py ENTRY_MAPS).                               *)
EXTENDS Signals, TLC
MCEntryA == [a \in Assets |-> IF a = "A" THEN 0 ELSE IF a = "B" THEN 3 ELSE IF a = "C" THEN 3 ELSE -1]
MCEntryB == [a \in Assets |-> IF a = "A" THEN 0 ELSE IF a = "B" THEN 0 ELSE IF a = "C" THEN 2 ELSE -1]
MCEntryC == [a \in Assets |-> IF a = "A" THEN 1 ELSE IF a = "B" THEN 5 ELSE IF a = "C" THEN -1 ELSE -1]
MCOrder == SelectSeq(<< "A", "B", "C" >>, LAMBDA a : a \in Assets)
=============================================================================
