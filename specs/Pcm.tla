--------------------------------- MODULE Pcm ---------------------------------
(***************************************************************************)
(* One call of the portfolio construction model                            *)
(*   qstrader/portcon/pcm.py  (PortfolioConstructionModel.__call__)        *)
(* with the fixed-weight optimiser: alpha weights -> full weight vector    *)
(* over held + universe + alpha assets -> recorded allocation -> target    *)
(* quantities (Sizer) -> orders = target - held.                           *)
(*                                                                         *)
(* Assets are numbered in ascending symbol order (1 = smallest symbol).    *)
(* A CASE is a record                                                      *)
(*   held   [asset -> signed quantity]  (non-zero entries: current holdings)*)
(*   uni    set of assets in the universe at the rebalance instant         *)
(*   alpha  [asset -> integer weight]  (what the alpha model returns)      *)
(*   px     [asset -> ask price], a rational per asset of interest         *)
(*   kind, eq, par, fee, exact : as in Sizer                               *)
(***************************************************************************)
EXTENDS Sizer

Ascending(S) == LET RECURSIVE A(_)
                    A(T) == IF T = {} THEN << >>
                            ELSE LET m == CHOOSE x \in T : \A y \in T : x <= y IN << m >> \o A(T \ {m})
                IN  A(S)

Held(c)        == { a \in DOMAIN c.held : c.held[a] # 0 }

(***************************************************************************)
(* The weight pipeline of __call__: alpha model (or zeros over the         *)
(* universe) -> optional risk model -> optimiser -> full vector.           *)
(* Optional case fields (absent = the plain fixed-weight pipeline):        *)
(*   risk  "none" | "zero" | "drop" and rset: a risk model that sets the   *)
(*         weights of the assets in rset to zero, or removes those keys    *)
(*   opt   "fixed" | "equal" and scale (a rational > 0 or 0): the          *)
(*         optimiser; equal = scale / (number of keys) for every key       *)
(***************************************************************************)
RiskKind(c) == IF "risk" \in DOMAIN c THEN c.risk ELSE "none"
OptKind(c)  == IF "opt" \in DOMAIN c THEN c.opt ELSE "fixed"
AfterRisk(c) ==
  CASE RiskKind(c) = "zero" -> [a \in DOMAIN c.alpha |-> IF a \in c.rset THEN 0 ELSE c.alpha[a]]
    [] RiskKind(c) = "drop" -> [a \in DOMAIN c.alpha \ c.rset |-> c.alpha[a]]
    [] OTHER                -> c.alpha
\* integer weights handed to the sizer: only their proportions matter there (both sizers normalise)
Optimised(c) ==
  IF OptKind(c) = "equal" THEN [a \in DOMAIN AfterRisk(c) |-> IF c.scale[1] = 0 THEN 0 ELSE 1]
  ELSE AfterRisk(c)
\* the weights as RECORDED in the target allocation (exact rationals)
Recorded(c) ==
  IF OptKind(c) = "equal"
  THEN [a \in DOMAIN AfterRisk(c) |-> RNorm(<< c.scale[1], c.scale[2] * Cardinality(DOMAIN AfterRisk(c)) >>)]
  ELSE [a \in DOMAIN AfterRisk(c) |-> << AfterRisk(c)[a], 1 >>]

FullAssets(c)  == Held(c) \cup c.uni \cup DOMAIN Optimised(c)
FullWeights(c) == [a \in FullAssets(c) |-> IF a \in DOMAIN Optimised(c) THEN Optimised(c)[a] ELSE 0]
FullRecorded(c) == [a \in FullAssets(c) |-> IF a \in DOMAIN Recorded(c) THEN Recorded(c)[a] ELSE << 0, 1 >>]
\* holdings may be fractions of a unit (the broker books whatever quantity it is handed): `held` then carries NUMERATORS
\* over the common denominator `hden` (absent = 1, whole units).  Targets are whole units; orders are stated in 1/hden units.
HDen(c)        == IF "hden" \in DOMAIN c THEN c.hden ELSE 1
HeldQty(c, a)  == IF a \in DOMAIN c.held THEN c.held[a] ELSE 0

\* the sizer is called with the full weight vector; it iterates the assets in ascending order
SizerCase(c) ==
  LET as == Ascending(FullAssets(c))
  IN  [kind |-> c.kind, eq |-> c.eq, par |-> c.par, fee |-> c.fee, exact |-> c.exact,
       w  |-> [i \in 1..Len(as) |-> FullWeights(c)[as[i]]],
       px |-> [i \in 1..Len(as) |-> c.px[as[i]]]]

(* Result: [err |-> ...] or                                                 *)
(*   [alloc  |-> full weight vector (what is recorded as target allocation),*)
(*    target |-> [asset -> SET of admissible target quantities],            *)
(*    assets |-> ascending sequence of the full asset list]                 *)
Call(c) ==
  LET as == Ascending(FullAssets(c))
      r  == Size(SizerCase(c))
  IN  IF "err" \in DOMAIN r THEN [err |-> r.err, alloc |-> FullWeights(c), recorded |-> FullRecorded(c)]     \* the allocation is recorded before sizing
      ELSE [alloc |-> FullWeights(c), recorded |-> FullRecorded(c), assets |-> as,
            target |-> [a \in FullAssets(c) |-> r.q[CHOOSE i \in 1..Len(as) : as[i] = a]]]

\* the orders for one concrete choice of target quantities tq : [asset -> Int]
Orders(c, tq) ==
  LET as == Ascending({ a \in FullAssets(c) : tq[a] * HDen(c) - HeldQty(c, a) # 0 })
  IN  [i \in 1..Len(as) |-> << as[i], tq[as[i]] * HDen(c) - HeldQty(c, as[i]) >>]

(* C09 on a case and a list of orders os (pairs <<asset, qty>>), given the target tq *)
C09_Post(c, tq, os) ==
  /\ \A i \in 1..Len(os) : os[i][2] # 0                                          \* no zero-quantity order
  /\ \A i, j \in 1..Len(os) : i < j => os[i][1] < os[j][1]                        \* ascending, hence no duplicate
  /\ \A a \in FullAssets(c) :                                                     \* exactly target - held
       LET q == IF \E i \in 1..Len(os) : os[i][1] = a
                THEN os[CHOOSE i \in 1..Len(os) : os[i][1] = a][2] ELSE 0
       IN  q = tq[a] * HDen(c) - HeldQty(c, a)
  /\ \A i \in 1..Len(os) : os[i][1] \in FullAssets(c)
  /\ \A a \in Held(c) : (a \notin DOMAIN Optimised(c) \/ Optimised(c)[a] = 0) => tq[a] = 0   \* weightless holdings are liquidated
  /\ DOMAIN FullWeights(c) = Held(c) \cup c.uni \cup DOMAIN Optimised(c)            \* allocation covers exactly that set
  /\ OptKind(c) = "equal" /\ DOMAIN AfterRisk(c) # {} =>                             \* C19: equal weights summing to the scale
        /\ \A a, b \in DOMAIN Recorded(c) : Recorded(c)[a] = Recorded(c)[b]
        /\ LET u == Recorded(c)[CHOOSE a \in DOMAIN Recorded(c) : TRUE]
           IN  RNorm(<< u[1] * Cardinality(DOMAIN Recorded(c)), u[2] >>) = RNorm(c.scale)

PcmSound(c) ==
  LET r == Call(c) IN
  "target" \in DOMAIN r =>
    \A tq \in { f \in [FullAssets(c) -> UNION { r.target[a] : a \in FullAssets(c) }] :
                   \A a \in FullAssets(c) : f[a] \in r.target[a] } :
      C09_Post(c, tq, Orders(c, tq))
=============================================================================
