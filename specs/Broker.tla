------------------------------- MODULE Broker -------------------------------
(***************************************************************************)
(* The simulated broker, its portfolios and their positions as one state   *)
(* machine whose actions are the PUBLIC calls of                           *)
(*   qstrader/broker/simulated_broker.py   (SimulatedBroker)               *)
(*   qstrader/broker/portfolio/portfolio.py (Portfolio)                    *)
(* valid and invalid alike.  One action = one call.  `Update` is specified *)
(* as the composition the code performs, stage by stage, so that the trace *)
(* specification and the properties can name the stages.                   *)
(*                                                                         *)
(* Units: money in mils, instants in minutes since 1970, fee rates in mils *)
(* per whole currency unit of consideration (1 = 0.1 %).                   *)
(*                                                                         *)
(* Every action is  Guard /\ Apply(Effect)  where Effect is a record that  *)
(* lists the new value of each variable that changes.  BrokerTrace reuses  *)
(* the very same Effect operators as tests against recorded executions.    *)
(***************************************************************************)
EXTENDS Integers, Sequences, FiniteSets, TLC, Calendar, Rat, Position

CONSTANTS
  Assets,       \* asset symbols that can be traded / quoted
  Bug           \* "none" for the specification proper.  Any other value plants ONE seeded defect in the model
                \* (spec sensitivity): TLC must then report the named property violated, which shows that the
                \* property is not vacuous on the bounded instances.  Values: "fill-when-closed", "buys-first",
                \* "sell-commission-not-debited", "fill-at-mid", "refusal-debits", "delete-when-nonpositive"

VARIABLES
  now,          \* broker clock
  master,       \* master (base currency) cash account
  created,      \* portfolio ids in creation order = drain order of Update
  cash,         \* [pid -> mil]
  clk,          \* [pid -> instant]   portfolio clock
  pos,          \* [pid -> [held asset -> Position record]]
  hist,         \* [pid -> Seq(event)] portfolio history with TRUE (unrounded) amounts
  queue,        \* [pid -> Seq([oid, asset, qty])]  pending orders, FIFO
  quote,        \* [asset -> [bid, ask]]  what the data handler answers now (environment)
  fee,          \* [kind, c, t]  kind "zero" | "percent"; c, t in mils per unit
  err,          \* outcome class of the last call: "ok" | "ValueError" | "KeyError"
  \* ghosts (history variables; no action reads them to decide anything)
  ledger,       \* [pid -> [in, out, cost]]  transfers in / out and sum of fill costs
  ext,          \* [in, out]  external subscriptions / withdrawals of the master account
  net,          \* [pid -> [asset -> signed sum of filled quantities]]
  seen,         \* [pid -> [asset -> price of the latest fill or mark, 0 if none]]
  oidNext,      \* next order id
  done,         \* set of order ids that have been filled
  batch,        \* fills performed by the last call (<<>> unless it filled something)
  call          \* the last call: [op |-> ..., and its arguments]

vars == << now, master, created, cash, clk, pos, hist, queue, quote, fee, err,
           ledger, ext, net, seen, oidNext, done, batch, call >>

-----------------------------------------------------------------------------
PSet     == { created[i] : i \in 1..Len(created) }
Known(p) == p \in PSet

Pick(n, k, d) == IF k \in DOMAIN n THEN n[k] ELSE d

\* An Effect names only what changes; err defaults to "ok", batch to <<>>.
Apply(c, n) ==
  /\ call'    = c
  /\ now'     = Pick(n, "now", now)
  /\ master'  = Pick(n, "master", master)
  /\ created' = Pick(n, "created", created)
  /\ cash'    = Pick(n, "cash", cash)
  /\ clk'     = Pick(n, "clk", clk)
  /\ pos'     = Pick(n, "pos", pos)
  /\ hist'    = Pick(n, "hist", hist)
  /\ queue'   = Pick(n, "queue", queue)
  /\ quote'   = Pick(n, "quote", quote)
  /\ fee'     = fee
  /\ err'     = Pick(n, "err", "ok")
  /\ ledger'  = Pick(n, "ledger", ledger)
  /\ ext'     = Pick(n, "ext", ext)
  /\ net'     = Pick(n, "net", net)
  /\ seen'    = Pick(n, "seen", seen)
  /\ oidNext' = Pick(n, "oidNext", oidNext)
  /\ done'    = Pick(n, "done", done)
  /\ batch'   = Pick(n, "batch", << >>)

Rej(e) == [err |-> e]

Ext(f, k, v) == [x \in (DOMAIN f) \cup {k} |-> IF x = k THEN v ELSE f[x]]

-----------------------------------------------------------------------------
(* History events carry the true amounts; the report rounds them to cents. *)
EvSub(t, a, bal)    == [kind |-> "subscription", debit |-> 0, credit |-> a, bal |-> bal, t |-> t]
EvWd(t, a, bal)     == [kind |-> "withdrawal",   debit |-> a, credit |-> 0, bal |-> bal, t |-> t]
\* LONG iff quantity >= 0 (copysign(1, 0) = 1): cost is debited; SHORT: -cost is credited
EvTxn(t, q, cost, bal) ==
  IF q >= 0 THEN [kind |-> "asset_transaction", debit |-> cost, credit |-> 0,     bal |-> bal, t |-> t]
  ELSE           [kind |-> "asset_transaction", debit |-> 0,    credit |-> -cost, bal |-> bal, t |-> t]

-----------------------------------------------------------------------------
(* Master account                                                          *)
SubAcctEff(a) ==
  IF a < 0 THEN Rej("ValueError")
  ELSE [master |-> master + a, ext |-> [ext EXCEPT !.in = @ + a]]

WdAcctEff(a) ==
  IF a < 0 THEN Rej("ValueError")
  ELSE IF a > master THEN Rej("ValueError")
  ELSE [master |-> master - a, ext |-> [ext EXCEPT !.out = @ + a]]

(* Portfolio creation: clock = broker clock, no cash, no history           *)
CreateEff(p) ==
  IF Known(p) THEN Rej("ValueError")
  ELSE [created |-> Append(created, p),
        cash    |-> Ext(cash, p, 0),
        clk     |-> Ext(clk, p, now),
        pos     |-> Ext(pos, p, << >>),
        hist    |-> Ext(hist, p, << >>),
        queue   |-> Ext(queue, p, << >>),
        ledger  |-> Ext(ledger, p, [in |-> 0, out |-> 0, cost |-> 0]),
        net     |-> Ext(net, p, [a \in Assets |-> 0]),
        seen    |-> Ext(seen, p, [a \in Assets |-> 0])]

(* Transfers master <-> portfolio.  The checks are in the order of the     *)
(* code, which decides the error class when several apply.                 *)
SubPfEff(p, a) ==
  IF a < 0 THEN Rej("ValueError")
  ELSE IF ~Known(p) THEN Rej("KeyError")
  ELSE IF a > master THEN Rej("ValueError")
  ELSE IF now < clk[p] THEN Rej("ValueError")          \* Portfolio.subscribe_funds refuses
  ELSE [master |-> master - a,
        cash   |-> [cash EXCEPT ![p] = @ + a],
        clk    |-> [clk EXCEPT ![p] = now],
        hist   |-> [hist EXCEPT ![p] = Append(@, EvSub(now, a, cash[p] + a))],
        ledger |-> [ledger EXCEPT ![p].in = @ + a]]

WdPfEff(p, a) ==
  IF a < 0 THEN Rej("ValueError")
  ELSE IF ~Known(p) THEN Rej("KeyError")
  ELSE IF a > cash[p] THEN (IF Bug = "refusal-debits" THEN [err |-> "ValueError", master |-> master + 250] ELSE Rej("ValueError"))
  ELSE IF now < clk[p] THEN Rej("ValueError")
  ELSE [master |-> master + a,
        cash   |-> [cash EXCEPT ![p] = @ - a],
        clk    |-> [clk EXCEPT ![p] = now],
        hist   |-> [hist EXCEPT ![p] = Append(@, EvWd(now, a, cash[p] - a))],
        ledger |-> [ledger EXCEPT ![p].out = @ + a]]

(* Order submission: enqueue and nothing else.                             *)
SubmitEff(p, a, q) ==
  IF ~Known(p) THEN [err |-> "KeyError", oidNext |-> oidNext + 1]
  ELSE [queue   |-> [queue EXCEPT ![p] = Append(@, [oid |-> oidNext, asset |-> a, qty |-> q])],
        oidNext |-> oidNext + 1]

-----------------------------------------------------------------------------
(* Update(t)                                                               *)

Mid(a) == (quote[a].bid + quote[a].ask) \div 2

\* stage 2: every held asset of every portfolio is re-marked at the mid quote
HeldPairs     == { pa \in PSet \X Assets : pa[2] \in DOMAIN pos[pa[1]] }
ExpectedMarks == { << pa[1], pa[2], Mid(pa[2]) >> : pa \in HeldPairs }

MarkedPos(t) == [p \in PSet |-> [a \in DOMAIN pos[p] |-> Mark(pos[p][a], Mid(a), t)]]
MarkedSeen == [p \in PSet |-> [a \in Assets |-> IF a \in DOMAIN pos[p] THEN Mid(a) ELSE seen[p][a]]]

\* stage 3: drain every queue, portfolios in creation order, each FIFO
RECURSIVE DrainFrom(_)
DrainFrom(i) ==
  IF i > Len(created) THEN << >>
  ELSE [k \in 1..Len(queue[created[i]]) |->
           [pid |-> created[i], oid |-> queue[created[i]][k].oid,
            asset |-> queue[created[i]][k].asset, qty |-> queue[created[i]][k].qty]]
       \o DrainFrom(i + 1)
Drained == DrainFrom(1)

\* stage 4: stable sort by direction: sells (qty < 0) first; a zero quantity has direction +1
IsSell(o) == o.qty < 0
SellsFirst(s) == IF Bug = "buys-first" THEN SelectSeq(s, LAMBDA o : ~IsSell(o)) \o SelectSeq(s, IsSell)
                 ELSE SelectSeq(s, IsSell) \o SelectSeq(s, LAMBDA o : ~IsSell(o))

\* stage 5: price, consideration and commission of one fill
\* the ask for a buy, the bid for a sell; the code tests  order.direction > 0  and the direction of a zero
\* quantity is +1, so a zero-quantity order is priced at the ask
SidePriceCode(a, q) == IF Bug = "fill-at-mid" THEN (quote[a].bid + quote[a].ask) \div 2
                       ELSE IF q >= 0 THEN quote[a].ask ELSE quote[a].bid
Consideration(p, q) == RoundHalfEven(p * q, 1000)            \* whole currency units
FeeOf(f, consid) == IF f.kind = "zero" THEN 0 ELSE (f.c + f.t) * Abs(consid)
Commission(p, q) == FeeOf(fee, Consideration(p, q))
\* the commissions the property admits: the fee model on either neighbour at an exact tie
CommissionSet(p, q) == { FeeOf(fee, n) : n \in { m \in { (p * q) \div 1000, (p * q) \div 1000 + 1 } :
                                                   2 * Abs(m * 1000 - p * q) <= 1000 } }

ExpectedFills(t) ==
  LET s == SellsFirst(Drained)
  IN  [k \in 1..Len(s) |->
         LET px == SidePriceCode(s[k].asset, s[k].qty)
         IN  [pid |-> s[k].pid, oid |-> s[k].oid, asset |-> s[k].asset, qty |-> s[k].qty,
              px |-> px, comm |-> Commission(px, s[k].qty), t |-> t]]

\* Portfolio.transact_asset for one fill, on an accumulator of the variables it touches
FillOne(acc, f) ==
  LET p    == f.pid
      cost == f.px * f.qty + f.comm
      bal  == acc.cash[p] - (IF Bug = "sell-commission-not-debited" /\ f.qty < 0 THEN f.px * f.qty ELSE cost)
  IN  [acc EXCEPT
         !.cash[p]          = bal,
         !.clk[p]           = f.t,
         !.pos[p]           = IF Bug = "delete-when-nonpositive"
                              THEN TransactPositionWith(@, f.asset, f.qty, f.px, f.comm, f.t, LAMBDA n : n <= 0)
                              ELSE TransactPosition(@, f.asset, f.qty, f.px, f.comm, f.t),
         !.hist[p]          = Append(@, EvTxn(f.t, f.qty, cost, bal)),
         !.ledger[p].cost   = @ + cost,
         !.net[p][f.asset]  = @ + f.qty,
         !.seen[p][f.asset] = IF f.qty = 0 THEN @ ELSE f.px,
         !.done             = @ \cup {f.oid}]

RECURSIVE FillFold(_, _, _)
FillFold(acc, fs, i) == IF i > Len(fs) THEN acc ELSE FillFold(FillOne(acc, fs[i]), fs, i + 1)

\* the broker clock never moves backwards: an earlier timestamp is refused before anything is
\* touched (every portfolio and position clock is <= the broker clock, see ClocksOrdered)
\* ... and a non-positive mid quote for a HELD asset (a negative price mark arriving through the broker's own
\* clock update) is refused with the documented ValueError before anything is touched: no clock moves, no other
\* holding is re-marked, no pending order is executed
BadMark == \E pa \in HeldPairs : Mid(pa[2]) <= 0
UpdateRefused(t) == t < now \/ BadMark
\* environment assumption of the bounded instances that move quotes freely (MC_Broker conjoins it to Update): only
\* assets that are held are ever quoted at a non-positive mid when the clock is updated (an order cannot be filled
\* at a non-positive price: outside every property).  Session.tla, where 0 encodes "no price yet", does not use it.
QuotesSane == \A a \in Assets : Mid(a) <= 0 => \E p \in PSet : a \in DOMAIN pos[p]

(* The effect of update(t) GIVEN the marks and fills that happened: in the  *)
(* model they are the expected ones; in a recorded trace the observed ones. *)
UpdateEffWith(t, fills) ==
  IF UpdateRefused(t) THEN Rej("ValueError")
  ELSE
    LET acc0 == [cash |-> cash, clk |-> clk, pos |-> MarkedPos(t), hist |-> hist,
                 ledger |-> ledger, net |-> net, seen |-> MarkedSeen, done |-> done]
        acc  == FillFold(acc0, fills, 1)
    IN  [now    |-> t,
         cash   |-> acc.cash, clk |-> acc.clk, pos |-> acc.pos, hist |-> acc.hist,
         ledger |-> acc.ledger, net |-> acc.net, seen |-> acc.seen, done |-> acc.done,
         queue  |-> IF IsOpen(t) \/ Bug = "fill-when-closed" THEN [p \in PSet |-> << >>] ELSE queue,
         batch  |-> fills]

UpdateEff(t) == UpdateEffWith(t, IF IsOpen(t) \/ Bug = "fill-when-closed" THEN ExpectedFills(t) ELSE << >>)

-----------------------------------------------------------------------------
(* Portfolio-level requests made directly on a Portfolio object (C15).     *)
(* RejectAdvancesPortfolioClock: subscribe_funds / withdraw_funds assign   *)
(* the portfolio clock BEFORE validating the amount, so a refused amount   *)
(* with a later timestamp advances that clock - and nothing else.          *)
PfSubscribeEff(p, t, a) ==
  IF t < clk[p] THEN Rej("ValueError")
  ELSE IF a < 0 THEN [err |-> "ValueError", clk |-> [clk EXCEPT ![p] = t]]
  ELSE [cash   |-> [cash EXCEPT ![p] = @ + a],
        clk    |-> [clk EXCEPT ![p] = t],
        hist   |-> [hist EXCEPT ![p] = Append(@, EvSub(t, a, cash[p] + a))],
        ledger |-> [ledger EXCEPT ![p].in = @ + a],
        ext    |-> [ext EXCEPT !.in = @ + a]]          \* money from outside the account

PfWithdrawEff(p, t, a) ==
  IF t < clk[p] THEN Rej("ValueError")
  ELSE IF a < 0 \/ a > cash[p] THEN [err |-> "ValueError", clk |-> [clk EXCEPT ![p] = t]]
  ELSE [cash   |-> [cash EXCEPT ![p] = @ - a],
        clk    |-> [clk EXCEPT ![p] = t],
        hist   |-> [hist EXCEPT ![p] = Append(@, EvWd(t, a, cash[p] - a))],
        ledger |-> [ledger EXCEPT ![p].out = @ + a],
        ext    |-> [ext EXCEPT !.out = @ + a]]

\* update_market_value_of_asset: silently nothing if the asset is not held
PfMarkEff(p, a, px, t) ==
  IF a \notin DOMAIN pos[p] THEN [err |-> "ok"]
  ELSE IF px < 0 THEN Rej("ValueError")
  ELSE IF t < clk[p] THEN Rej("ValueError")
  ELSE IF t < pos[p][a].pclk THEN Rej("ValueError")      \* the position's own clock
  ELSE [pos  |-> [pos EXCEPT ![p][a] = Mark(@, px, t)],
        seen |-> [seen EXCEPT ![p][a] = px]]

\* transact_asset with a transaction stamped earlier than the portfolio clock
PfTransactEff(p, a, q, px, c, t) ==
  IF t < clk[p] THEN Rej("ValueError")
  ELSE IF a \in DOMAIN pos[p] /\ TransactRefused(pos[p][a], q, px, t)
       THEN [err |-> "ValueError", clk |-> [clk EXCEPT ![p] = t]]     \* only the clock has moved
  ELSE LET f   == [pid |-> p, oid |-> 0, asset |-> a, qty |-> q, px |-> px, comm |-> c, t |-> t]
           acc == FillOne([cash |-> cash, clk |-> clk, pos |-> pos, hist |-> hist, ledger |-> ledger,
                           net |-> net, seen |-> seen, done |-> done], f)
       IN  [cash |-> acc.cash, clk |-> acc.clk, pos |-> acc.pos, hist |-> acc.hist,
            ledger |-> acc.ledger, net |-> acc.net, seen |-> acc.seen,
            batch |-> << f >>]

-----------------------------------------------------------------------------
(* Actions                                                                 *)
SubscribeAccount(a)      == Apply([op |-> "sub_acct", a |-> a], SubAcctEff(a))
WithdrawAccount(a)       == Apply([op |-> "wd_acct", a |-> a], WdAcctEff(a))
CreatePortfolio(p)       == Apply([op |-> "create", pid |-> p], CreateEff(p))
SubscribePortfolio(p, a) == Apply([op |-> "sub_pf", pid |-> p, a |-> a], SubPfEff(p, a))
WithdrawPortfolio(p, a)  == Apply([op |-> "wd_pf", pid |-> p, a |-> a], WdPfEff(p, a))
SubmitOrder(p, a, q)     == Apply([op |-> "submit", pid |-> p, asset |-> a, qty |-> q], SubmitEff(p, a, q))
Update(t)                == Apply([op |-> "update", t |-> t], UpdateEff(t))
PriceMove(a, b, k)       == Apply([op |-> "price", asset |-> a, bid |-> b, ask |-> k],
                                  [quote |-> [quote EXCEPT ![a] = [bid |-> b, ask |-> k]]])
PfSubscribe(p, t, a)     == Known(p) /\ t <= now /\ Apply([op |-> "pf_sub", pid |-> p, t |-> t, a |-> a], PfSubscribeEff(p, t, a))
PfWithdraw(p, t, a)      == Known(p) /\ t <= now /\ Apply([op |-> "pf_wd", pid |-> p, t |-> t, a |-> a], PfWithdrawEff(p, t, a))
PfMark(p, a, px, t)      == Known(p) /\ t <= now /\ Apply([op |-> "pf_mark", pid |-> p, asset |-> a, px |-> px, t |-> t],
                                               PfMarkEff(p, a, px, t))
PfTransact(p, a, q, px, c, t) ==
  Known(p) /\ t <= now /\ Apply([op |-> "pf_txn", pid |-> p, asset |-> a, qty |-> q, px |-> px, comm |-> c, t |-> t],
                    PfTransactEff(p, a, q, px, c, t))

InitWith(t0, q0, f0) ==
  /\ now = t0 /\ master = 0 /\ created = << >>
  /\ cash = << >> /\ clk = << >> /\ pos = << >> /\ hist = << >> /\ queue = << >>
  /\ quote = q0 /\ fee = f0 /\ err = "ok"
  /\ ledger = << >> /\ ext = [in |-> 0, out |-> 0] /\ net = << >> /\ seen = << >>
  /\ oidNext = 1 /\ done = {} /\ batch = << >> /\ call = [op |-> "init"]

-----------------------------------------------------------------------------
(* What a client can observe through the public getters.                   *)
RECURSIVE SumOver(_, _)
SumOver(S, f) == IF S = {} THEN 0 ELSE LET x == CHOOSE y \in S : TRUE IN f[x] + SumOver(S \ {x}, f)
RECURSIVE RSumOver(_, _)
RSumOver(S, f) == IF S = {} THEN RInt(0) ELSE LET x == CHOOSE y \in S : TRUE IN RAdd(f[x], RSumOver(S \ {x}, f))

\* parametrised by the state components so that it can be applied to primed variables cheaply
MvOf(po, p)  == SumOver(DOMAIN po[p], [a \in DOMAIN po[p] |-> MarketValue(po[p][a])])
HoldingsOf(po, p) ==
  [a \in DOMAIN po[p] |->
     [qty |-> Net(po[p][a]), mv |-> MarketValue(po[p][a]),
      rpnl |-> Realised(po[p][a]), upnl |-> Unrealised(po[p][a]), tpnl |-> Total(po[p][a]),
      \* what C03 relates the P&L figures to: average cost incl. the open side's commission, and the ghost ledger
      avg |-> AvgPrice(po[p][a]), paid |-> po[p][a].paid, fees |-> po[p][a].fees]]

ObserveOf(ps, ca, po) ==
  [ hold   |-> [p \in ps |-> HoldingsOf(po, p)],
    tmv    |-> [p \in ps |-> MvOf(po, p)],
    teq    |-> [p \in ps |-> ca[p] + MvOf(po, p)],
    \* account totals: always obtainable; "master" is the sum of the per-portfolio figures
    acctEq |-> SumOver(ps, [p \in ps |-> ca[p] + MvOf(po, p)]),
    acctMv |-> SumOver(ps, [p \in ps |-> MvOf(po, p)]) ]

\* portfolio-level P&L totals (exact; small instances only: the sums cross-multiply)
PnlTotalsOf(ps, po) ==
  [ trp |-> [p \in ps |-> RSumOver(DOMAIN po[p], [a \in DOMAIN po[p] |-> Realised(po[p][a])])],
    tup |-> [p \in ps |-> RSumOver(DOMAIN po[p], [a \in DOMAIN po[p] |-> Unrealised(po[p][a])])],
    ttp |-> [p \in ps |-> RSumOver(DOMAIN po[p], [a \in DOMAIN po[p] |-> Total(po[p][a])])] ]

PfMarketValue(p) == MvOf(pos, p)
PfEquity(p)      == cash[p] + PfMarketValue(p)
Holdings(p)      == HoldingsOf(pos, p)
Observe          == ObserveOf(PSet, cash, pos)

\* error class of each getter for an id that does not exist
UnknownIdErr == [cash |-> "ValueError", tmv |-> "KeyError", teq |-> "KeyError",
                 dict |-> "KeyError", ccy |-> "ValueError"]

-----------------------------------------------------------------------------
(* PROPERTIES                                                              *)

\* what C15 says a refusal must leave alone
Observables == << master, cash, [p \in PSet |-> Holdings(p)], queue, hist >>

\* every clock trails the broker clock (requests made directly on a portfolio are stamped <= now)
ClocksOrdered == \A p \in PSet : clk[p] <= now /\ \A a \in DOMAIN pos[p] : pos[p][a].pclk <= now

\* ---- C01 ----
C01_Ledger  == \A p \in PSet : cash[p] = ledger[p].in - ledger[p].out - ledger[p].cost
C01_ZeroSum == master + SumOver(PSet, cash) + SumOver(PSet, [p \in PSet |-> ledger[p].cost])
               = ext.in - ext.out
RECURSIVE HistRuns(_, _, _)
HistRuns(h, i, bal) ==      \* every event moves the running balance by its own amount
  IF i > Len(h) THEN TRUE
  ELSE /\ h[i].bal = bal + h[i].credit - h[i].debit
       /\ h[i].kind \in {"subscription", "withdrawal", "asset_transaction"}
       /\ (h[i].kind = "subscription" => h[i].debit = 0 /\ h[i].credit >= 0)
       /\ (h[i].kind = "withdrawal" => h[i].credit = 0 /\ h[i].debit >= 0)
       /\ (i > 1 => h[i - 1].t <= h[i].t)
       /\ HistRuns(h, i + 1, h[i].bal)
C01_History == \A p \in PSet :
                 /\ HistRuns(hist[p], 1, 0)
                 /\ (hist[p] # << >> => hist[p][Len(hist[p])].bal = cash[p])
                 /\ (hist[p] = << >> => cash[p] = 0)
C01_Totals  == LET o == Observe IN /\ o.acctEq = SumOver(PSet, o.teq)
                                   /\ o.acctMv = SumOver(PSet, o.tmv)
\* nothing but a transfer or a fill changes a cash balance; each appends exactly one history event
IsTransferOf(c, p) == c.op \in {"sub_pf", "wd_pf", "pf_sub", "pf_wd"} /\ c.pid = p
C01_OnlyBy  == [][ /\ \A p \in PSet :
                        LET nf == Cardinality({k \in 1..Len(batch') : batch'[k].pid = p})
                            nt == IF IsTransferOf(call', p) /\ err' = "ok" THEN 1 ELSE 0
                        IN  /\ Len(hist'[p]) = Len(hist[p]) + nt + nf
                            /\ SubSeq(hist'[p], 1, Len(hist[p])) = hist[p]
                            /\ (nt + nf = 0 => cash'[p] = cash[p])
                   /\ (call'.op \notin {"sub_acct", "wd_acct", "sub_pf", "wd_pf"} => master' = master)
                 ]_vars

\* ---- C02 ----
C02_Holdings == \A p \in PSet :
                  /\ DOMAIN pos[p] = { a \in Assets : net[p][a] # 0 }
                  /\ \A a \in DOMAIN pos[p] :
                       /\ Net(pos[p][a]) = net[p][a]
                       /\ pos[p][a].px = seen[p][a]
                       /\ MarketValue(pos[p][a]) = net[p][a] * seen[p][a]
                  /\ PfEquity(p) = cash[p] + SumOver(DOMAIN pos[p], [a \in DOMAIN pos[p] |-> net[p][a] * seen[p][a]])

\* ---- C03 ----
C03_Pnl == \A p \in PSet : \A a \in DOMAIN pos[p] : PnlReconciles(pos[p][a])
C03_MarkOnlyUnrealised ==
  [][ \A p \in PSet : \A a \in (DOMAIN pos[p]) \cap (IF p \in DOMAIN pos' THEN DOMAIN pos'[p] ELSE {}) :
        batch' = << >> /\ Net(pos'[p][a]) = Net(pos[p][a]) /\ pos'[p][a].paid = pos[p][a].paid
           /\ pos'[p][a].fees = pos[p][a].fees
        => /\ REq(Realised(pos'[p][a]), Realised(pos[p][a]))
           /\ pos'[p][a].bq = pos[p][a].bq /\ pos'[p][a].sq = pos[p][a].sq ]_vars

\* ---- C04 ----
Pending == UNION { { queue[p][k].oid : k \in 1..Len(queue[p]) } : p \in PSet }
C04_Status == Pending \cap done = {}                 \* a filled order is never still pending
C04_Step ==
  [][ LET B == batch' IN
      /\ (call'.op = "submit" =>                      \* submitting changes the queue and nothing else
            /\ master' = master /\ cash' = cash /\ pos' = pos /\ hist' = hist /\ done' = done /\ B = << >>
            /\ (err' = "ok" => /\ queue'[call'.pid] = Append(queue[call'.pid],
                                       [oid |-> oidNext, asset |-> call'.asset, qty |-> call'.qty])
                               /\ \A p \in PSet \ {call'.pid} : queue'[p] = queue[p])
            /\ (err' # "ok" => queue' = queue))
      /\ (call'.op \notin {"submit", "update"} => \A p \in PSet : queue'[p] = queue[p])
      /\ (call'.op \notin {"update", "pf_txn"} => B = << >> /\ done' = done)
      /\ (call'.op = "update" /\ err' = "ok" /\ ~IsOpen(call'.t) =>     \* closed: pending and untouched
            /\ B = << >> /\ queue' = queue /\ cash' = cash /\ master' = master /\ hist' = hist /\ done' = done
            /\ \A p \in PSet : DOMAIN pos'[p] = DOMAIN pos[p] /\ \A a \in DOMAIN pos[p] : Net(pos'[p][a]) = Net(pos[p][a]))
      /\ (call'.op = "update" /\ err' = "ok" /\ IsOpen(call'.t) =>      \* open: everything pending fills
            /\ \A p \in PSet : queue'[p] = << >>
            /\ { B[k].oid : k \in 1..Len(B) } = Pending
            /\ Len(B) = Cardinality(Pending)                             \* each exactly once
            /\ done' = done \cup Pending
            /\ \A k \in 1..Len(B) :
                 /\ B[k].t = call'.t
                 /\ \E j \in 1..Len(queue[B[k].pid]) :                   \* in full, same asset
                      queue[B[k].pid][j] = [oid |-> B[k].oid, asset |-> B[k].asset, qty |-> B[k].qty]
            /\ \A k1, k2 \in 1..Len(B) : k1 < k2 /\ B[k1].pid = B[k2].pid =>
                 /\ ~(B[k1].qty >= 0 /\ B[k2].qty < 0)                    \* sells first
                 /\ ((B[k1].qty < 0) = (B[k2].qty < 0) => B[k1].oid < B[k2].oid))   \* FIFO per side
    ]_vars

\* ---- C05 ----
C05_Fills ==
  [][ call'.op = "update" => \A k \in 1..Len(batch') :
        LET f == batch'[k] IN
        /\ f.qty > 0 => f.px = quote[f.asset].ask
        /\ f.qty < 0 => f.px = quote[f.asset].bid
        /\ f.comm \in CommissionSet(f.px, f.qty)
        /\ f.comm >= 0
        /\ f.comm \in { FeeOf(fee, -n) : n \in { m \in { (f.px * f.qty) \div 1000, (f.px * f.qty) \div 1000 + 1 } :
                                                   2 * Abs(m * 1000 - f.px * f.qty) <= 1000 } }
        /\ f.t = now'
    ]_vars

\* ---- C15 ----
C15_Rejected == [][ err' # "ok" => Observables' = Observables ]_vars
=============================================================================
