------------------------------- MODULE Session -------------------------------
(***************************************************************************)
(* BacktestTradingSession.run() (qstrader/trading/backtest.py) as the      *)
(* composition                                                             *)
(*    clock (Clock.tla)  x  market (Market.tla)  x  broker (Broker.tla)    *)
(*    x  portfolio construction (Pcm.tla + Sizer.tla)  x  execution        *)
(* One step of this specification is ONE call the session makes on one of  *)
(* its components, in the order the code makes them:                       *)
(*                                                                         *)
(*   for each clock event e:                                               *)
(*     "update"     broker.update(e.t)        (mark; fill if exchange open)*)
(*     "rebalance"  if e.t is a scheduled instant not before the burn-in:  *)
(*                  alpha -> full weights -> allocation record -> sizing   *)
(*                  -> orders (target - held)                              *)
(*     "exec"       for each order: broker.submit_order ; broker.update    *)
(*     "equity"     if e is a market close not before the burn-in: record  *)
(*                  (e.t, account equity)                                  *)
(*                                                                         *)
(* The configuration (dates, schedule, sizing, fees, cash, alpha model,    *)
(* universe, market) is a record chosen in Init from the constant sequence *)
(* Cases; for a fixed configuration the behaviour is unique (C18).         *)
(*                                                                         *)
(* Money in mils (Broker.tla).  Assets are the strings of AssetSeq, in     *)
(* ascending order; Pcm.tla numbers them 1..N in that order.               *)
(***************************************************************************)
EXTENDS Broker

CONSTANTS
  AssetSeq,     \* ascending sequence of the asset symbols; Assets = its range
  Cases         \* sequence of configurations

CK == INSTANCE Clock
PC == INSTANCE Pcm

VARIABLES
  cfg,       \* the configuration of this run (copied from Cases in Init, constant afterwards: TLC re-evaluates
             \* a substituted constant on every reference, a variable it just reads)
  ci,        \* index of the configuration in Cases
  ek,        \* index of the current clock event (1-based); Len(events)+1 when finished
  pc,        \* "update" | "rebalance" | "exec" | "execupd" | "equity" | "done" | "failed"
  frame,     \* [asset -> forward-filled sequence of [t, v]]  v = price in mils, 0 = NaN   (constant during a run)
  events,    \* the clock events of the run (constant during a run)
  sched,     \* the rebalance instants (constant during a run)
  pend,      \* orders still to be submitted by the execution handler: Seq(<<asset, qty>>)
  curve,     \* equity curve: Seq([t, eq])
  allocs,    \* allocation records: Seq([t, w]) with w : [asset -> weight]
  flog,      \* every fill so far: Seq([t, asset, qty, px, comm])
  failure,   \* [t, cls] of the exception that ended the run, or [t |-> 0, cls |-> "none"]
  \* signals (only for the signal-driven alpha model "topn"; constant otherwise): the momentum signal's
  strk,      \* tracked assets, in the order they were added
  swin,      \* [asset -> bounded window of closes]  (capacity lookback + 1)
  warm       \* SignalsCollection.warmup: number of updates so far

svars == << cfg, ci, ek, pc, frame, events, sched, pend, curve, allocs, flog, failure, strk, swin, warm >>
allvars == << vars, svars >>

Cfg == cfg
PID == "000001"
AssetNo(a) == CHOOSE i \in 1..Len(AssetSeq) : AssetSeq[i] = a

(* ---------------- market: daily bars -> quotes ---------------- *)
\* cfg.market : [asset -> [day -> << open, close >>]]  prices in mils, 0 = missing cell.
\* The session's data source adjusts prices (adjusted close = close in these markets): the adjusted open is
\* open * adj/close, hence MISSING whenever the close is missing (Market.tla, OpenVal).
RECURSIVE BarSeq(_, _)
BarSeq(bars, ds) ==           \* ds ascending sequence of the bar days
  IF ds = << >> THEN << >>
  ELSE << [t |-> At(Head(ds), OPEN),  v |-> IF bars[Head(ds)][2] = 0 THEN 0 ELSE bars[Head(ds)][1]],
          [t |-> At(Head(ds), CLOSE), v |-> bars[Head(ds)][2]] >>
       \o BarSeq(bars, Tail(ds))
RECURSIVE FFill(_, _, _)
FFill(s, i, prev) ==
  IF i > Len(s) THEN << >>
  ELSE LET v == IF s[i].v = 0 THEN prev ELSE s[i].v IN << [t |-> s[i].t, v |-> v] >> \o FFill(s, i + 1, v)
FrameOf(bars) == FFill(BarSeq(bars, CK!Ascending(DOMAIN bars)), 1, 0)
\* point-in-time quote: last observation at or before t, 0 (NaN) if none
QuoteAt(fr, t) == LET n == Cardinality({ i \in 1..Len(fr) : fr[i].t <= t }) IN IF n = 0 THEN 0 ELSE fr[n].v
QuotesAt(t) == [a \in Assets |-> [bid |-> QuoteAt(frame[a], t), ask |-> QuoteAt(frame[a], t)]]

(* ---------------- universe, alpha ---------------- *)
EntryOf(a)    == IF a \in DOMAIN Cfg.entry THEN Cfg.entry[a] ELSE -1                \* -1 : never a member
\* optional: assets that LEAVE the universe (a delisting, a user-defined Universe): member from its entry instant up to,
\* not including, its exit instant (0 / absent = never leaves)
ExitOf(a)     == IF "exit" \in DOMAIN Cfg /\ a \in DOMAIN Cfg.exit THEN Cfg.exit[a] ELSE 0
UniverseAt(t) == { a \in Assets : EntryOf(a) # -1 /\ EntryOf(a) <= t /\ (ExitOf(a) = 0 \/ t < ExitOf(a)) }   \* static = entry 0 for every member
HasSignals == Cfg.alpha = "topn"
\* the universe's own iteration order (the harness builds universes in ascending symbol order)
UniverseSeq(t) == SelectSeq(AssetSeq, LAMBDA a : a \in UniverseAt(t))
\* N-period momentum of a window: last / first - 1 (0 while there is no return yet)
MomOf(w) == IF Len(w) < 2 THEN << 0, 1 >> ELSE << w[Len(w)] - w[1], w[1] >>
\* examples/momentum_taa.py TopNMomentumAlphaModel: zero for every universe member; once the signals have
\* warmed up, weight 1/N (recorded here in units of 1/N, i.e. 1) for the N tracked assets of highest momentum,
\* ties broken by the order in which the signal started tracking them (Python's stable sort, reverse=True)
TopN ==
  LET idx(a) == CHOOSE i \in 1..Len(strk) : strk[i] = a
      T == { strk[i] : i \in 1..Len(strk) }
      before(b, a) == \/ RCmpS(MomOf(swin[b]), MomOf(swin[a])) > 0
                      \/ (RCmpS(MomOf(swin[b]), MomOf(swin[a])) = 0 /\ idx(b) < idx(a))
  IN  { a \in T : Cardinality({ b \in T : before(b, a) }) < Cfg.topn }
\* The code computes momentum in floating point (a cumulative product of daily returns); for DIFFERENT windows whose exact
\* momentum is equal the rounding errors may differ (12.5, 10, 16, 12.5 gives 2.2e-16; 16, 12.5, 12.5, 16 gives 0.0), so which
\* of them is selected is not determined by anything the properties state.  Equal windows give equal floats, and distinct
\* exact values on the price grid differ by far more than any rounding error.  A rebalance at which the selection boundary
\* runs through such a tie is flagged; the harness does not judge the run (see DESIGN section 3).
TieAmbiguous ==
  /\ HasSignals /\ warm >= Cfg.lookback
  /\ LET T == { strk[i] : i \in 1..Len(strk) }
     IN  \E a \in TopN, b \in T \ TopN : RCmpS(MomOf(swin[a]), MomOf(swin[b])) = 0 /\ swin[a] # swin[b]
AlphaAt(t) == IF Cfg.alpha = "fixed" THEN Cfg.weights                              \* the same dictionary at every rebalance
              ELSE IF Cfg.alpha = "single" THEN [a \in UniverseAt(t) |-> 1]         \* universe-driven single signal
              ELSE [a \in UniverseAt(t) \cup (IF warm >= Cfg.lookback THEN TopN ELSE {}) |->
                      IF warm >= Cfg.lookback /\ a \in TopN THEN 1 ELSE 0]

(* ---------------- schedule ---------------- *)
ScheduleOf(c) ==
  IF c.sched = "weekly" THEN CK!Weekly(c.start, c.end, c.wd, FALSE)
  ELSE IF c.sched = "daily" THEN CK!Daily(c.start, c.end, FALSE)
  ELSE IF c.sched = "eom" THEN CK!EndOfMonth(c.start, c.end, FALSE)
  ELSE CK!BuyAndHold(c.start)
Due(t) == (\E i \in 1..Len(sched) : sched[i] = t) /\ (Cfg.burn = -1 \/ t >= Cfg.burn)
Tracked(t) == Cfg.burn = -1 \/ t >= Cfg.burn

Ev == events[ek]

(* ---------------- initial state: broker funded, one portfolio ---------------- *)
Init ==
  /\ ci \in 1..Len(Cases)
  /\ cfg = Cases[ci]
  /\ ek = 1 /\ pend = << >> /\ curve = << >> /\ allocs = << >> /\ flog = << >>
  /\ failure = [t |-> 0, cls |-> "none"]
  /\ frame = [a \in Assets |-> IF a \in DOMAIN Cfg.market THEN FrameOf(Cfg.market[a]) ELSE << >>]
  /\ events = CK!ClockEvents(Cfg.start, Cfg.end, FALSE, FALSE)
  /\ sched = ScheduleOf(Cfg)
  /\ pc = IF events = << >> THEN "done" ELSE "update"
  /\ strk = IF cfg.alpha = "topn" THEN SelectSeq(AssetSeq, LAMBDA a : a \in DOMAIN cfg.entry /\ cfg.entry[a] # -1 /\ cfg.entry[a] <= cfg.start)
            ELSE << >>                                 \* Signal.__init__: universe.get_assets(start_dt)
  /\ swin = [a \in {} |-> << >>] /\ warm = 0
  \* SimulatedBroker(start, initial_funds = cash); create_portfolio; subscribe everything to it
  /\ now = Cfg.start /\ master = 0 /\ created = << PID >>
  /\ cash = (PID :> Cfg.cash) /\ clk = (PID :> Cfg.start) /\ pos = (PID :> << >>)
  /\ hist = (PID :> << EvSub(Cfg.start, Cfg.cash, Cfg.cash) >>) /\ queue = (PID :> << >>)
  /\ quote = IF events = << >> THEN [a \in Assets |-> [bid |-> 0, ask |-> 0]]
             ELSE [a \in Assets |-> LET q == QuoteAt(IF a \in DOMAIN Cfg.market THEN FrameOf(Cfg.market[a]) ELSE << >>, events[1].t)
                                    IN  [bid |-> q, ask |-> q]]
  /\ fee = Cfg.fee /\ err = "ok"
  /\ ledger = (PID :> [in |-> Cfg.cash, out |-> 0, cost |-> 0]) /\ ext = [in |-> Cfg.cash, out |-> 0]
  /\ net = (PID :> [a \in Assets |-> 0]) /\ seen = (PID :> [a \in Assets |-> 0])
  /\ oidNext = 1 /\ done = {} /\ batch = << >> /\ call = [op |-> "init"]

LogFills(b) == [i \in 1..Len(b) |-> [t |-> b[i].t, asset |-> b[i].asset, qty |-> b[i].qty, px |-> b[i].px, comm |-> b[i].comm]]

(* ---------------- the steps ---------------- *)
\* broker.update(e.t) issued by the session loop
SUpdate ==
  /\ pc = "update"
  /\ Update(Ev.t)
  /\ flog' = flog \o LogFills(batch')
  /\ IF err' # "ok" THEN pc' = "failed" /\ failure' = [t |-> Ev.t, cls |-> err']
     ELSE pc' = (IF HasSignals /\ Ev.k = 2 THEN "signals" ELSE IF Due(Ev.t) THEN "rebalance" ELSE "equity") /\ failure' = failure
  /\ UNCHANGED << cfg, ci, ek, frame, events, sched, pend, curve, allocs, strk, swin, warm >>

\* signals.update(dt) at a market close: first the assets that have entered the universe are added (in the
\* universe's order), then every tracked asset receives ONE observation - the quote at that close
SSignals ==
  /\ pc = "signals"
  /\ LET newly == SelectSeq(UniverseSeq(Ev.t), LAMBDA a : \A i \in 1..Len(strk) : strk[i] # a)
         trk   == strk \o newly
     IN  /\ strk' = trk
         /\ swin' = [a \in { trk[i] : i \in 1..Len(trk) } |->
                       LET old == IF a \in DOMAIN swin THEN swin[a] ELSE << >>
                           w   == Append(old, quote[a].ask)
                       IN  IF Len(w) > Cfg.lookback + 1 THEN Tail(w) ELSE w]
  /\ warm' = warm + 1
  /\ pc' = IF Due(Ev.t) THEN "rebalance" ELSE "equity"
  /\ UNCHANGED << vars, cfg, ci, ek, frame, events, sched, pend, curve, allocs, flog, failure >>

\* the portfolio construction model at a due instant
PcmCase(t) ==
  LET held == [a \in DOMAIN pos[PID] |-> Net(pos[PID][a])]
      al   == AlphaAt(t)
      full == DOMAIN held \cup UniverseAt(t) \cup DOMAIN al
  IN  [held  |-> [n \in { AssetNo(a) : a \in DOMAIN held } |-> held[AssetSeq[n]]],
       uni   |-> { AssetNo(a) : a \in UniverseAt(t) },
       alpha |-> [n \in { AssetNo(a) : a \in DOMAIN al } |-> al[AssetSeq[n]]],
       px    |-> [n \in { AssetNo(a) : a \in full } |->
                    LET q == quote[AssetSeq[n]].ask IN IF q = 0 THEN << 0, 0 >> ELSE << q, 1000 >>],
       kind  |-> Cfg.kind, eq |-> << PfEquity(PID), 1000 >>, par |-> Cfg.par,
       fee   |-> IF fee.kind = "zero" THEN << 0, 1 >> ELSE << fee.c + fee.t, 1000 >>,
       exact |-> TRUE,
       \* the session's optional risk model (a user model that vetoes the assets of rset: weight zero, or key removed)
       risk  |-> IF "risk" \in DOMAIN Cfg THEN Cfg.risk ELSE "none",
       rset  |-> IF "rset" \in DOMAIN Cfg THEN { AssetNo(a) : a \in Cfg.rset } ELSE {}]

SRebalance ==
  /\ pc = "rebalance"
  /\ LET c  == PcmCase(Ev.t)
         r  == PC!Call(c)
         w  == [a \in { AssetSeq[n] : n \in DOMAIN r.alloc } |-> r.alloc[AssetNo(a)]]
     IN  /\ allocs' = Append(allocs, [t |-> Ev.t, w |-> w, amb |-> TieAmbiguous])   \* recorded before sizing
         /\ IF "err" \in DOMAIN r
            THEN pc' = "failed" /\ failure' = [t |-> Ev.t, cls |-> r.err] /\ pend' = pend
            ELSE LET tq == [n \in PC!FullAssets(c) |-> CHOOSE x \in r.target[n] : TRUE]
                     os == PC!Orders(c, tq)
                 IN  /\ pend' = [i \in 1..Len(os) |-> << AssetSeq[os[i][1]], os[i][2] >>]
                     /\ pc' = "exec" /\ failure' = failure
  /\ UNCHANGED << vars, cfg, ci, ek, frame, events, sched, curve, flog, strk, swin, warm >>

\* execution handler: submit one order ...
SExec ==
  /\ pc = "exec"
  /\ IF pend = << >>
     THEN /\ pc' = "equity" /\ UNCHANGED << vars, pend >>
     ELSE /\ SubmitOrder(PID, Head(pend)[1], Head(pend)[2])
          /\ pc' = "execupd" /\ pend' = Tail(pend)
  /\ UNCHANGED << cfg, ci, ek, frame, events, sched, curve, allocs, flog, failure, strk, swin, warm >>
\* ... then broker.update(dt) again (fills at once if the instant is in exchange hours)
SExecUpd ==
  /\ pc = "execupd"
  /\ Update(Ev.t)
  /\ flog' = flog \o LogFills(batch')
  /\ pc' = "exec"
  /\ UNCHANGED << cfg, ci, ek, frame, events, sched, pend, curve, allocs, failure, strk, swin, warm >>

\* equity sample at a market close, then on to the next event (whose quotes become current)
SEquity ==
  /\ pc = "equity"
  /\ curve' = IF Ev.k = 2 /\ Tracked(Ev.t) THEN Append(curve, [t |-> Ev.t, eq |-> PfEquity(PID)]) ELSE curve
  /\ ek' = ek + 1
  /\ pc' = IF ek + 1 > Len(events) THEN "done" ELSE "update"
  /\ quote' = IF ek + 1 > Len(events) THEN quote ELSE QuotesAt(events[ek + 1].t)
  /\ call' = [op |-> "price"] /\ batch' = << >>  \* for the broker this step is a move of the quotes
  /\ UNCHANGED << now, master, created, cash, clk, pos, hist, queue, fee, err, ledger, ext, net, seen, oidNext, done >>
  /\ UNCHANGED << cfg, ci, frame, events, sched, pend, allocs, flog, failure, strk, swin, warm >>

SNext == SUpdate \/ SSignals \/ SRebalance \/ SExec \/ SExecUpd \/ SEquity
SSpec == Init /\ [][SNext]_allvars

(* ======================= properties ======================= *)
Closes  == { events[i].t : i \in { j \in 1..Len(events) : events[j].k = 2 } }
Opens   == { events[i].t : i \in { j \in 1..Len(events) : events[j].k = 1 } }
DueSet  == { sched[i] : i \in { j \in 1..Len(sched) : (Cfg.burn = -1 \/ sched[j] >= Cfg.burn)
                                                      /\ \E e \in 1..Len(events) : events[e].t = sched[j] } }
Finished == pc = "done"
Past(t) == ek > Len(events) \/ events[ek].t > t \/ (events[ek].t = t /\ pc \in {"equity"})

\* ---- C14 ----
\* construction runs at exactly the due instants: one allocation record per due instant already passed, in order
C14_Rebalances ==
  /\ \A i \in 1..Len(allocs) : allocs[i].t \in DueSet
  /\ \A i \in 1..(Len(allocs) - 1) : allocs[i].t < allocs[i + 1].t
  /\ (Finished => { allocs[i].t : i \in 1..Len(allocs) } = DueSet)
\* fills only at market-open events, never before the first due instant
C14_Fills ==
  \A i \in 1..Len(flog) :
    /\ flog[i].t \in Opens
    /\ \E d \in DueSet : d <= flog[i].t
\* one equity point per business-day close in [max(start, burn-in), end], equal to equity marked at that close
C14_Equity ==
  /\ \A i \in 1..Len(curve) : curve[i].t \in Closes /\ Tracked(curve[i].t)
  /\ \A i \in 1..(Len(curve) - 1) : curve[i].t < curve[i + 1].t
  /\ (Finished => { curve[i].t : i \in 1..Len(curve) } = { t \in Closes : Tracked(t) })

\* ---- C08 (sanity of the reference: the rules it states are the documented ones) ----
\* after the update at a market open nothing is pending (orders sized at a close fill at the very next open)
C08_FillAtNextOpen == (pc \in {"rebalance", "equity"} /\ ek <= Len(events) /\ IsOpen(Ev.t)) => queue[PID] = << >>
\* equity recorded at a close = cash + holdings valued at that close's quotes
C08_EquityRule ==
  [][ Len(curve') > Len(curve) =>
        curve'[Len(curve')].eq = cash[PID] + SumOver(DOMAIN pos[PID],
                                     [a \in DOMAIN pos[PID] |-> Net(pos[PID][a]) * quote[a].ask]) ]_allvars
\* every fill is priced at the quote of its own instant, and sells come first within an update
C08_FillPrice ==
  [][ \A k \in 1..Len(batch') : batch'[k].px = quote[batch'[k].asset].ask /\ batch'[k].px > 0 ]_allvars

\* ---- C19 ----
\* an asset gets a non-zero weight, an order or a position only at or after its entry instant
C19_Membership ==
  Cfg.alpha = "single" =>
    /\ \A i \in 1..Len(allocs) : \A a \in DOMAIN allocs[i].w :
         allocs[i].w[a] # 0 => a \in UniverseAt(allocs[i].t)
    /\ \A i \in 1..Len(allocs) : \A a \in Assets :
         a \in UniverseAt(allocs[i].t) =>
             (a \in DOMAIN allocs[i].w /\ (allocs[i].w[a] # 0 \/ ("rset" \in DOMAIN Cfg /\ a \in Cfg.rset)))   \* unless the risk model vetoes it
    /\ \A i \in 1..Len(flog) : EntryOf(flog[i].asset) # -1 /\ EntryOf(flog[i].asset) <= flog[i].t
    /\ \A a \in DOMAIN pos[PID] : EntryOf(a) # -1 /\ EntryOf(a) <= now

\* ---- C16 (in-backtest cadence, model level) ----
\* every tracked asset's window holds the most recent lookback+1 closes of the market closes processed since
\* it entered the universe, one per business day; assets not yet in the universe have no window
ClosesFed(a) == SelectSeq(events, LAMBDA e : e.k = 2 /\ a \in UniverseAt(e.t)
                                              /\ (ek > Len(events) \/ e.t < Ev.t \/ (e.t = Ev.t /\ pc \notin {"update", "signals"})))
C16_SessionCadence ==
  HasSignals =>
    /\ \A a \in DOMAIN swin :
         LET cl == ClosesFed(a)
             n  == Len(cl)
             k  == IF n > Cfg.lookback + 1 THEN Cfg.lookback + 1 ELSE n
         IN  swin[a] = [i \in 1..k |-> QuoteAt(frame[a], cl[n - k + i].t)]
    /\ warm = Cardinality({ i \in 1..Len(events) : events[i].k = 2 /\
                              (ek > Len(events) \/ events[i].t < Ev.t \/ (events[i].t = Ev.t /\ pc \notin {"update", "signals"})) })

\* ---- C07 (model level) ----
\* The run reads the market only through `quote`, and the quotes in force while the event at time t is
\* processed are those of the market TRUNCATED after t's day: rewriting or removing any later bar changes
\* nothing that has happened so far.  (The real twin runs confront the code with exactly that rewriting.)
TruncBars(bars, t) == [d \in { x \in DOMAIN bars : At(x, OPEN) <= t } |-> bars[d]]
C07_Causal ==
  (pc \in {"update", "signals", "rebalance", "exec", "execupd", "equity"} /\ ek <= Len(events)) =>
     \A a \in Assets :
       quote[a].ask = (IF a \in DOMAIN Cfg.market THEN QuoteAt(FrameOf(TruncBars(Cfg.market[a], Ev.t)), Ev.t) ELSE 0)
\* and every recorded output is stamped no later than the event being processed
C07_NoFuture ==
  ek <= Len(events) =>
    /\ \A i \in 1..Len(curve) : curve[i].t <= Ev.t
    /\ \A i \in 1..Len(flog) : flog[i].t <= Ev.t
    /\ \A i \in 1..Len(allocs) : allocs[i].t <= Ev.t

\* ---- C18 (i) ----
\* For a fixed configuration the next step is a function of the state: every step above is a conjunction of
\* equations x' = f(state) without any choice, so each run is ONE behaviour.  TLC confirms it structurally: the
\* number of distinct states of MC_Session equals the sum of the run lengths and no state has two successors.
=============================================================================
