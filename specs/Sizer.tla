------------------------------- MODULE Sizer --------------------------------
(***************************************************************************)
(* The two order sizers, transcribed step by step from                     *)
(*   qstrader/portcon/order_sizer/dollar_weighted.py                       *)
(*   qstrader/portcon/order_sizer/long_short.py                            *)
(* next to the declarative statements of C10 and C11.                      *)
(*                                                                         *)
(* A CASE is a record                                                      *)
(*   kind  "dw" (dollar-weighted, cash-buffered) | "ls" (long/short)       *)
(*   eq    portfolio equity, an exact rational (currency units)            *)
(*   par   cash buffer (dw) or gross leverage (ls), a rational             *)
(*   fee   total percentage fee rate (commission + tax), a rational        *)
(*   w     sequence of integer weights (unnormalised; assets in ascending  *)
(*         symbol order)                                                   *)
(*   px    sequence of ask prices, rationals; << 0, 0 >> = NaN             *)
(*   exact TRUE when every intermediate is exactly representable in       *)
(*         binary floating point (dyadic grid): the answer is then unique. *)
(*         Otherwise, where the exact quotient is a whole number q the     *)
(*         float quotient may fall a hair short, and {q-1, q} is admitted  *)
(*         (mirror image for negative quantities); every other case still  *)
(*         pins the rounding direction.                                    *)
(* The result is [err |-> "ValueError"] or [q |-> sequence of SETS of      *)
(* admissible integer quantities].                                         *)
(***************************************************************************)
EXTENDS Integers, Sequences, FiniteSets, Rat

NaNp      == << 0, 0 >>
IsNaNp(x) == x[2] = 0
One       == << 1, 1 >>
Zero      == << 0, 1 >>

RECURSIVE SeqSum(_)
SeqSum(s) == IF s = << >> THEN 0 ELSE Head(s) + SeqSum(Tail(s))
AbsSeq(s) == [i \in 1..Len(s) |-> Abs(s[i])]

\* fee model on a dollar amount: rate * |amount|
FeeOn(rate, amt) == RMulX(rate, RAbs(amt))
\* amount - FeeOn(rate, amount), formed as one product (same value; avoids a cross-multiplied
\* subtraction that would leave TLC's 32-bit integers)
LessFee(rate, amt) == IF amt[1] >= 0 THEN RMulX(amt, RSubS(One, rate)) ELSE RMulX(amt, RAddS(One, rate))

\* floor of a rational with the float-boundary relation
FloorSet(x, exact) ==
  IF RIsInt(x) /\ ~exact THEN { RFloor(x) - 1, RFloor(x) } ELSE { RFloor(x) }
\* truncation toward zero with the float-boundary relation (the float can only fall short in magnitude)
TruncSet(x, exact) ==
  IF RIsInt(x) /\ ~exact /\ x[1] # 0
  THEN { RTrunc(x), RTrunc(x) - Sgn(x[1]) }
  ELSE { RTrunc(x) }

(* ------------------------- dollar-weighted ------------------------------ *)
DwPre(c, i) ==          \* pre-cost dollar weight of asset i
  LET W == SeqSum(c.w)
      be == RMulX(c.eq, RSubS(One, c.par))                   \* cash-buffered equity
  IN  IF W = 0 THEN RMulX(be, RInt(c.w[i]))                 \* weights left unscaled (all zero)
      ELSE RMulX(be, R(c.w[i], W))
DwAfter(c, i) == LessFee(c.fee, DwPre(c, i))

DollarWeighted(c) ==
  IF RLtS(c.par, Zero) \/ RLtS(One, c.par) THEN [err |-> "ValueError"]          \* constructor
  ELSE IF Len(c.w) = 0 THEN [q |-> << >>]
  ELSE IF \E i \in 1..Len(c.w) : c.w[i] < 0 THEN [err |-> "ValueError"]
  ELSE IF \E i \in 1..Len(c.w) : IsNaNp(c.px[i]) THEN [err |-> "ValueError"]
  ELSE [q |-> [i \in 1..Len(c.w) |-> FloorSet(RDivX(DwAfter(c, i), c.px[i]), c.exact)]]

\* C10, stated on a result r = sequence of integer quantities
C10_Post(c, qs) ==
  LET budget == RMulX(c.eq, RSubS(One, c.par))
      W == SeqSum(c.w)
      share(i) == IF W = 0 THEN Zero ELSE RMulX(budget, R(c.w[i], W))
      est(i)   == FeeOn(c.fee, share(i))
      cost(i, n) == RAddS(RMulX(RInt(n), c.px[i]), est(i))
  IN  /\ \A i \in 1..Len(qs) :
           /\ qs[i] >= 0
           /\ RLeS(cost(i, qs[i]), share(i))                                   \* affordable with the estimated fee
           /\ RLtS(share(i), cost(i, qs[i] + 1))                               \* one more share is not
           /\ (W = 0 => qs[i] = 0)
      /\ LET RECURSIVE Tot(_)
             Tot(i) == IF i = 0 THEN Zero ELSE RAddS(Tot(i - 1), RMulX(RInt(qs[i]), c.px[i]))
         IN  RLeS(Tot(Len(qs)), budget)                                        \* whole target within (1-b) * equity

(* --------------------------- long / short -------------------------------- *)
LsPre(c, i) ==
  LET G == SeqSum(AbsSeq(c.w))
  IN  IF G = 0 THEN RMulX(c.eq, RInt(c.w[i]))
      ELSE RMulX(c.eq, RMulX(c.par, R(c.w[i], G)))
LsAfter(c, i) == LessFee(c.fee, LsPre(c, i))

\* truncate the dollars toward zero, divide by the price, truncate toward zero again
LsQtySet(c, i) ==
  UNION { TruncSet(RDivX(RInt(d), c.px[i]), c.exact) : d \in TruncSet(LsAfter(c, i), c.exact) }

LongShort(c) ==
  IF RLeS(c.par, Zero) THEN [err |-> "ValueError"]                              \* constructor
  ELSE IF Len(c.w) = 0 THEN [q |-> << >>]
  ELSE IF \E i \in 1..Len(c.w) : IsNaNp(c.px[i]) THEN [err |-> "ValueError"]
  ELSE [q |-> [i \in 1..Len(c.w) |-> LsQtySet(c, i)]]

C11_Post(c, qs) ==
  LET G == SeqSum(AbsSeq(c.w))
      alloc(i) == IF G = 0 THEN Zero ELSE RMulX(c.eq, RMulX(c.par, R(c.w[i], G)))   \* leverage-scaled, signed
      after(i) == LessFee(c.fee, alloc(i))
      absq(i)  == RInt(Abs(qs[i]))
  IN  /\ \A i \in 1..Len(qs) :
           /\ Sgn(qs[i]) \in {0, Sgn(c.w[i])}                                  \* sign of the weight, or zero
           /\ RLeS(RMulX(absq(i), c.px[i]), RAbs(after(i)))                      \* affordable
           /\ RLtS(RSubS(RAbs(after(i)), One), RMulX(RInt(Abs(qs[i]) + 1), c.px[i]))  \* largest, to within one unit
           /\ (G = 0 => qs[i] = 0)
      /\ LET RECURSIVE Tot(_)
             Tot(i) == IF i = 0 THEN Zero ELSE RAddS(Tot(i - 1), RMulX(absq(i), c.px[i]))
         IN  RLeS(Tot(Len(qs)), RMulX(RMulX(c.par, c.eq), RAddS(One, c.fee)))    \* gross <= L * E * (1 + f)

Size(c) == IF c.kind = "dw" THEN DollarWeighted(c) ELSE LongShort(c)
Post(c, qs) == IF c.kind = "dw" THEN C10_Post(c, qs) ELSE C11_Post(c, qs)

\* every admissible answer satisfies the declarative statement; all-zero weights give zeros; the
\* answer is unique unless a float boundary is involved
RECURSIVE Choices(_)
Choices(sets) == IF sets = << >> THEN { << >> }
                 ELSE { << x >> \o rest : x \in Head(sets), rest \in Choices(Tail(sets)) }
SizerSound(c) ==
  LET r == Size(c) IN
  "q" \in DOMAIN r =>
     /\ \A qs \in Choices(r.q) :
          \* at a float boundary the lower neighbour is admitted although it is one share short
          \/ Post(c, qs)
          \/ ~c.exact /\ \E qs2 \in Choices(r.q) : Post(c, qs2) /\ \A i \in 1..Len(qs) : Abs(qs[i] - qs2[i]) <= 1
     /\ \E qs \in Choices(r.q) : Post(c, qs)
     /\ (c.exact => \A i \in 1..Len(r.q) : Cardinality(r.q[i]) = 1)
=============================================================================
