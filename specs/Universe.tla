------------------------------- MODULE Universe ------------------------------
(***************************************************************************)
(* Universes and weight optimisers                                         *)
(*   qstrader/asset/universe/{static,dynamic}.py                           *)
(*   qstrader/portcon/optimiser/{fixed_weight,equal_weight}.py             *)
(***************************************************************************)
EXTENDS Integers, FiniteSets, Rat

\* entry : [asset -> instant, or -1 for "no entry date"]
DynamicUniverse(entry, t) == { a \in DOMAIN entry : entry[a] # -1 /\ entry[a] <= t }     \* inclusive
StaticUniverse(list, t)   == list                                                        \* whatever t

\* w : [asset -> rational]
FixedWeight(w)        == w
EqualWeight(scale, w) == [a \in DOMAIN w |-> RMulX(scale, R(1, Cardinality(DOMAIN w)))]

RECURSIVE RSumSet(_, _)
RSumSet(S, f) == IF S = {} THEN RInt(0) ELSE LET x == CHOOSE y \in S : TRUE IN RAddS(f[x], RSumSet(S \ {x}, f))

C19_Optimisers(scale, w) ==
  /\ FixedWeight(w) = w
  /\ DOMAIN EqualWeight(scale, w) = DOMAIN w
  /\ \A a, b \in DOMAIN w : REq(EqualWeight(scale, w)[a], EqualWeight(scale, w)[b])
  /\ REq(RSumSet(DOMAIN w, EqualWeight(scale, w)), scale)
C19_Universe(entry, t) ==
  /\ \A a \in DOMAIN entry : a \in DynamicUniverse(entry, t) <=> (entry[a] # -1 /\ entry[a] <= t)
  /\ \A a \in DOMAIN entry : entry[a] = t => a \in DynamicUniverse(entry, t)            \* entry <= t is inclusive
  /\ \A a \in DOMAIN entry : entry[a] = t + 1 => a \notin DynamicUniverse(entry, t)
=============================================================================
