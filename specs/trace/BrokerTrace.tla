----------------------------- MODULE BrokerTrace -----------------------------
(***************************************************************************)
(* Validation of executions RECORDED from the real SimulatedBroker /       *)
(* Portfolio / Position classes against Broker.tla (code -> spec).         *)
(*                                                                         *)
(* Monitor idiom: at every recorded call the logged variables are bound to *)
(* the logged post-state (so one fault does not smear over the rest of the *)
(* trace), the unlogged ones (positions, ghost ledgers) follow the         *)
(* specification's own Effect of that call computed from the previous      *)
(* state and the OBSERVED sub-events (fills, marks), and every clause      *)
(* below compares what was logged with what the Effect says.  A failed     *)
(* clause is recorded as <<step, property, clause>>; the verdict of each   *)
(* trace is printed when its last event has been consumed.                 *)
(*                                                                         *)
(* A batch file holds many traces; TLC explores them all in one run        *)
(* (tid is chosen in Init).  Run with -workers 1.                          *)
(***************************************************************************)
EXTENDS Broker, Json, IOUtils

CONSTANT Structural   \* FALSE: every clause, amounts exact to the mil (traces whose values are mil-precise).
                      \* TRUE: executions with arbitrary float prices and 10^6 cash (the repository's own end-to-end
                      \* tests): the clauses that compare AMOUNTS are switched off - which orders fill, when, in which
                      \* order, at which side of the quote, what stays pending, what the holdings' quantities are, and
                      \* the refusals remain exact

Traces == JsonDeserialize(IOEnv.QSV_TRACE)
Amt(b) == Structural \/ b        \* (\/ short-circuits: the amount arithmetic is not even evaluated)

VARIABLES tid, l, bad, lhist, lhold,
          sync    \* FALSE once the execution has diverged from the specification: the unlogged variables (positions,
                  \* ghost ledgers) can then no longer be trusted, and only relations between LOGGED figures are judged
tvars == << vars, tid, l, bad, lhist, lhold, sync >>

Tr == Traces[tid]

EffectOf(e) ==
  LET c == e.call IN
  CASE c.op = "sub_acct" -> SubAcctEff(c.a)
    [] c.op = "wd_acct"  -> WdAcctEff(c.a)
    [] c.op = "create"   -> CreateEff(c.pid)
    [] c.op = "sub_pf"   -> SubPfEff(c.pid, c.a)
    [] c.op = "wd_pf"    -> WdPfEff(c.pid, c.a)
    [] c.op = "submit"   -> SubmitEff(c.pid, c.asset, c.qty)
    [] c.op = "update"   -> UpdateEffWith(c.t, e.fills)
    [] c.op = "price"    -> [quote |-> [quote EXCEPT ![c.asset] = [bid |-> c.bid, ask |-> c.ask]]]
    [] c.op = "pf_sub"   -> PfSubscribeEff(c.pid, c.t, c.a)
    [] c.op = "pf_wd"    -> PfWithdrawEff(c.pid, c.t, c.a)
    [] c.op = "pf_mark"  -> PfMarkEff(c.pid, c.asset, c.px, c.t)
    [] c.op = "pf_txn"   -> PfTransactEff(c.pid, c.asset, c.qty, c.px, c.comm, c.t)

Ident(fs) == [k \in 1..Len(fs) |-> << fs[k].pid, fs[k].oid, fs[k].asset, fs[k].qty >>]

\* logged history event x (cent-rounded amounts) against the true event e
HistEvMatches(x, e) ==
  /\ x.kind = e.kind /\ x.t = e.t
  /\ IsRounding(x.debit, e.debit, 10) /\ IsRounding(x.credit, e.credit, 10) /\ IsRounding(x.bal, e.bal, 10)

OwnerOf(op) == IF op \in {"submit", "update"} THEN "C04" ELSE "C01"

(***************************************************************************)
(* The clauses.  Evaluated in the step, i.e. unprimed = state before the   *)
(* call (logged), primed = state after it.  `n` is the Effect.             *)
(***************************************************************************)
Clauses(e, n) ==
  LET c        == e.call
      expErr   == Pick(n, "err", "ok")
      rej      == expErr # "ok"
      ps       == DOMAIN cash'
      expCash  == Pick(n, "cash", cash)
      expHist  == Pick(n, "hist", hist)
      expQueue == Pick(n, "queue", queue)
      expFills == IF c.op = "update" /\ ~rej /\ IsOpen(c.t) THEN ExpectedFills(c.t)
                  ELSE IF c.op = "pf_txn" /\ ~rej THEN n.batch ELSE << >>
      expMarks == IF c.op = "update" /\ ~rej THEN ExpectedMarks
                  ELSE IF c.op = "pf_mark" /\ ~rej /\ c.asset \in DOMAIN pos[c.pid]
                       THEN { << c.pid, c.asset, c.px >> } ELSE {}
      \* the price the implementation currently values a holding at (market value / quantity)
      PxObs(p, a) == lhold'[p][a].mv \div lhold'[p][a].qty
      Common == {
        << IF rej \/ c.op \in {"pf_sub", "pf_wd", "pf_mark", "pf_txn"} THEN << "C15", "outcome" >>
           ELSE << OwnerOf(c.op), "outcome" >>,
           e.err = expErr >>,
        \* account totals: obtainable, and the sum of the per-portfolio figures the getters report
        \* (each figure is a float rounded to a mil separately: allow one mil per summand)
        << << "C01", "account-equity" >>, Abs(e.post.acctEq - SumOver(ps, e.post.teq)) <= Cardinality(ps) >>,
        << << "C01", "account-market-value" >>, Abs(e.post.acctMv - SumOver(ps, e.post.tmv)) <= Cardinality(ps) >>,
        << << "C01", "other-currency" >>, e.post.other = 0 >>,
        << << "C15", "getter-errtype" >>, e.post.unk = UnknownIdErr >>,
        \* equity = cash + market value; market value = sum over the holdings report
        << << "C02", "equity" >>, \A p \in ps : Abs(e.post.teq[p] - (cash'[p] + e.post.tmv[p])) <= (IF Structural THEN 2 ELSE 1) >>,
        << << "C02", "mv-total" >>, \A p \in ps :
             Abs(e.post.tmv[p] - SumOver(DOMAIN lhold'[p], [a \in DOMAIN lhold'[p] |-> lhold'[p][a].mv])) <= Cardinality(DOMAIN lhold'[p]) >>,
        << << "MODEL", "clocks" >>, now' = Pick(n, "now", now) /\ clk' = Pick(n, "clk", clk) >> }
      \* a refused request: every observable the property lists is exactly as the PREVIOUS event logged it
      Refused == {
        << << "C15", "state(master)" >>, master' = master >>,
        << << "C15", "state(portfolios)" >>, created' = created >>,
        << << "C15", "state(cash)" >>, cash' = cash >>,
        << << "C15", "state(holdings)" >>, \A p \in ps \cap DOMAIN lhold :
               /\ DOMAIN lhold'[p] = DOMAIN lhold[p]
               /\ \A a \in DOMAIN lhold[p] : lhold'[p][a].qty = lhold[p][a].qty /\ lhold'[p][a].mv = lhold[p][a].mv >>,
        << << "C15", "state(pending-orders)" >>, queue' = queue >>,
        << << "C15", "state(history)" >>, lhist' = lhist >>,
        \* the same facts as the owning properties state them: a refused request is not a cash movement (C01:
        \* "nothing else ever changes a cash balance"), is not a fill (C02: holdings are the net of the fills) and
        \* is neither a fill nor a re-mark (C03: the P&L figures reconcile to the fills made and the current price)
        << << "C01", "untouched-by-refusal" >>, cash' = cash /\ master' = master >>,
        << << "C02", "untouched-by-refusal" >>, \A p \in ps \cap DOMAIN lhold :
               /\ DOMAIN lhold'[p] = DOMAIN lhold[p]
               /\ \A a \in DOMAIN lhold[p] : lhold'[p][a].qty = lhold[p][a].qty /\ lhold'[p][a].mv = lhold[p][a].mv >>,
        << << "C03", "untouched-by-refusal" >>, \A p \in ps \cap DOMAIN lhold : \A a \in DOMAIN lhold[p] \cap DOMAIN lhold'[p] :
               /\ lhold'[p][a].qty = lhold[p][a].qty /\ lhold'[p][a].rpnl = lhold[p][a].rpnl
               /\ lhold'[p][a].upnl = lhold[p][a].upnl /\ lhold'[p][a].tpnl = lhold[p][a].tpnl >>,
        << << "C15", "state(no-fill)" >>, e.fills = << >> /\ e.marks = << >> >> }
      \* an accepted request: the logged post-state is the Effect applied to the previous logged state
      Accepted == {
        << << "C01", "master" >>,  master' = Pick(n, "master", master) >>,
        << << "C01", "portfolios" >>, created' = Pick(n, "created", created) >>,
        << << "C01", "cash" >>, Amt(\A p \in ps : p \in DOMAIN expCash /\ cash'[p] = expCash[p]) >>,
        << << "C01", "history" >>,
           \A p \in ps \cap DOMAIN expHist :
             LET new == Len(expHist[p]) - (IF p \in DOMAIN hist THEN Len(hist[p]) ELSE 0)
                 old == IF p \in DOMAIN lhist THEN lhist[p] ELSE << >>
             IN  /\ Len(lhist'[p]) = Len(old) + new
                 /\ SubSeq(lhist'[p], 1, Len(old)) = old
                 /\ \A i \in 1..new :
                      LET x == lhist'[p][Len(old) + i]
                          y == expHist[p][Len(expHist[p]) - new + i]
                      IN  x.kind = y.kind /\ x.t = y.t /\ Amt(HistEvMatches(x, y)) >>,
        << << "C04", "queue" >>, \A p \in ps : p \in DOMAIN expQueue /\ queue'[p] = expQueue[p] >>,
        << << "C04", "batch" >>, Ident(e.fills) = Ident(expFills) >>,
        \* a fill lands in the portfolio the order was submitted to: otherwise the submitting portfolio's cash and
        \* holdings miss one of ITS fills (and another portfolio's move without an order of its own)
        << << "C01", "fill-portfolio" >>, c.op = "update" => \A k \in 1..Len(e.fills) :
             e.fills[k].pid \in DOMAIN queue /\ \E j \in 1..Len(queue[e.fills[k].pid]) : queue[e.fills[k].pid][j].oid = e.fills[k].oid >>,
        << << "C02", "fill-portfolio" >>, c.op = "update" => \A k \in 1..Len(e.fills) :
             e.fills[k].pid \in DOMAIN queue /\ \E j \in 1..Len(queue[e.fills[k].pid]) : queue[e.fills[k].pid][j].oid = e.fills[k].oid >>,
        << << "C05", "price" >>, \A k \in 1..Len(e.fills) :
             LET f == e.fills[k] IN c.op = "update" =>
               /\ (f.qty > 0 => f.px = quote[f.asset].ask) /\ (f.qty < 0 => f.px = quote[f.asset].bid) >>,
        << << "C05", "commission" >>, \A k \in 1..Len(e.fills) :
             LET f == e.fills[k] IN c.op = "update" => ((fee.kind = "zero" \/ fee.c + fee.t >= 0) => f.comm >= 0)   \* (rates in [0,1]: never negative)
                                                     /\ Amt(f.comm \in CommissionSet(f.px, f.qty))
                                                     /\ (fee.kind = "zero" => f.comm = 0) >>,
        << << "C05", "stamp" >>, \A k \in 1..Len(e.fills) : e.fills[k].t = c.t >>,
        \* what the portfolio is debited for its fills of this update: the consideration plus the commission the fill
        \* carries (that commission itself is judged by the clause above) - a sell is charged exactly like a buy
        << << "C05", "debited" >>, c.op = "update" => Amt(\A p \in ps \cap DOMAIN cash :
             LET ks == { k \in 1..Len(e.fills) : e.fills[k].pid = p }
             IN  cash[p] - cash'[p] = SumOver(ks, [k \in ks |-> e.fills[k].qty * e.fills[k].px + e.fills[k].comm])) >>,
        << << "C02", "marks" >>, { << e.marks[k].pid, e.marks[k].asset, e.marks[k].px >> : k \in 1..Len(e.marks) } = expMarks >>,
        \* holdings = net of the OBSERVED fills, valued at the latest price seen (ghosts follow the observed sub-events)
        << << "C02", "domain" >>, \A p \in ps \cap DOMAIN net' : DOMAIN lhold'[p] = { a \in Assets : net'[p][a] # 0 } >>,
        << << "C02", "qty" >>, \A p \in ps \cap DOMAIN net' : \A a \in DOMAIN lhold'[p] \cap Assets : lhold'[p][a].qty = net'[p][a] >>,   \* (a reported asset the model does not know is "domain"'s finding)
        << << "C02", "mv" >>, Amt(\A p \in ps \cap DOMAIN seen' : \A a \in DOMAIN lhold'[p] \cap Assets :
             lhold'[p][a].mv = lhold'[p][a].qty * seen'[p][a]) >>,
        \* P&L: realised as the accounting says; the three identities of C03 relative to the price the
        \* implementation currently values the holding at
        \* (positions with a gross volume beyond 50 000 units are left to the other clauses: the exact P&L numerators
        \* are products of money totals and quantities and leave TLC's 32-bit integers)
        << << "C03", "pnl" >>, Amt(\A p \in ps \cap DOMAIN pos' : \A a \in DOMAIN lhold'[p] \cap DOMAIN pos'[p] :
             lhold'[p][a].qty = Net(pos'[p][a]) /\ lhold'[p][a].qty # 0 /\ pos'[p][a].bq + pos'[p][a].sq <= 50000 =>
               LET P == Mark(pos'[p][a], PxObs(p, a), pos'[p][a].pclk) IN
               /\ RWithin1(lhold'[p][a].rpnl, Realised(P))
               /\ RWithin1(lhold'[p][a].upnl, Unrealised(P))                                  \* (price - avg cost) * net
               /\ Abs(lhold'[p][a].tpnl - lhold'[p][a].rpnl - lhold'[p][a].upnl) <= 2         \* total = realised + unrealised
               /\ Abs(lhold'[p][a].tpnl - (lhold'[p][a].mv - P.paid - P.fees)) <= 1) >>,       \* = market value - paid - fees
        \* the same two identities on the logged figures for positions of ANY volume (sums of money only: no overflow)
        << << "C03", "pnl-identities" >>, Amt(\A p \in ps \cap DOMAIN pos' : \A a \in DOMAIN lhold'[p] \cap DOMAIN pos'[p] :
             lhold'[p][a].qty = Net(pos'[p][a]) /\ lhold'[p][a].qty # 0 =>
               /\ Abs(lhold'[p][a].tpnl - lhold'[p][a].rpnl - lhold'[p][a].upnl) <= 2
               /\ Abs(lhold'[p][a].tpnl - (lhold'[p][a].mv - pos'[p][a].paid - pos'[p][a].fees)) <= 1) >>,
        \* ghost-ledger invariants on the LOGGED balances: catches cumulative drift
        << << "C01", "ledger" >>, Amt(\A p \in ps : p \in DOMAIN ledger' /\
             cash'[p] = ledger'[p].in - ledger'[p].out - ledger'[p].cost) >>,
        << << "C01", "zero-sum" >>, Amt(master' + SumOver(ps, cash') +
             SumOver(ps \cap DOMAIN ledger', [p \in ps \cap DOMAIN ledger' |-> ledger'[p].cost]) = ext'.in - ext'.out) >> }
  IN  [common |-> Common, specific |-> IF rej THEN Refused ELSE Accepted]

Step ==
  /\ l <= Len(Tr.ev)
  /\ LET e == Tr.ev[l]
         n == EffectOf(e)
     IN  /\ l' = l + 1 /\ tid' = tid
         \* resynchronise the logged variables on the log
         /\ now' = e.post.now /\ master' = e.post.master /\ created' = e.post.created
         /\ cash' = e.post.cash /\ clk' = e.post.clk /\ queue' = e.post.queue
         /\ lhist' = e.post.hist /\ lhold' = e.post.hold
         /\ quote' = e.quote /\ fee' = fee /\ err' = e.err /\ call' = e.call /\ batch' = e.fills
         \* unlogged variables follow the specification
         /\ pos' = Pick(n, "pos", pos) /\ hist' = Pick(n, "hist", hist)
         /\ ledger' = Pick(n, "ledger", ledger) /\ ext' = Pick(n, "ext", ext)
         /\ net' = Pick(n, "net", net) /\ seen' = Pick(n, "seen", seen)
         /\ oidNext' = Pick(n, "oidNext", oidNext) /\ done' = Pick(n, "done", done)
         /\ LET cl    == Clauses(e, n)
                 fc    == { y \in cl.common : ~y[2] }
                 fs    == IF sync THEN { y \in cl.specific : ~y[2] } ELSE {}
                 outc  == { y \in cl.common : y[1][2] = "outcome" /\ ~y[2] }
             IN  /\ bad' = bad \cup { << l, x[1][1], x[1][2] >> : x \in (IF sync THEN fc ELSE fc \ outc) \cup fs }
                 \* judged up to and including the first divergence; afterwards only the relations between logged figures
                 /\ sync' = (sync /\ fs = {} /\ outc = {})

Finish ==
  /\ l = Len(Tr.ev) + 1
  /\ PrintT(<< "VERDICT", tid, Tr.id, bad >>)
  /\ l' = l + 1
  /\ UNCHANGED << vars, tid, bad, lhist, lhold, sync >>

TraceInit ==
  /\ tid \in 1..Len(Traces)
  /\ l = 1 /\ bad = {} /\ lhist = << >> /\ lhold = << >> /\ sync = TRUE
  /\ InitWith(Tr.t0, Tr.quote, Tr.fee)

TraceNext == Step \/ Finish
TraceSpec == TraceInit /\ [][TraceNext]_tvars
=============================================================================
