SPECIFICATION TraceSpec
CONSTANTS
  Assets = {"A", "B", "C"}
CHECK_DEADLOCK FALSE
