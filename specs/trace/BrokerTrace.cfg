SPECIFICATION TraceSpec
CONSTANTS
  Assets = {"A", "B", "C"}
  Bug = "none"
  Structural = FALSE
CHECK_DEADLOCK FALSE
