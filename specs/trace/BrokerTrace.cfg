SPECIFICATION TraceSpec
CONSTANTS
  Assets = {"A", "B", "C"}
  Bug = "none"
CHECK_DEADLOCK FALSE
