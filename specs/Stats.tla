-------------------------------- MODULE Stats --------------------------------
(***************************************************************************)
(* Performance statistics of an equity curve, in the shape of              *)
(*   qstrader/statistics/performance.py (create_drawdowns with its explicit*)
(*   high-water-mark loop, aggregate_returns, create_cagr, Sharpe/Sortino) *)
(* next to the declarative definitions of C17.  All values exact rationals;*)
(* the irrational last step (sqrt, fractional power) is applied by the     *)
(* harness to the rationals exported from here.                            *)
(*                                                                         *)
(* A curve is a sequence x of positive integers (equity) on the sequence   *)
(* days of consecutive business days.                                      *)
(***************************************************************************)
EXTENDS Integers, Sequences, FiniteSets, Calendar, Rat

CONSTANT HWM_SEEDS_FIRST     \* TRUE: running maximum includes the first observation (the property);
                             \* FALSE: the loop as originally written (seeded with 0, started at index 1)

One == << 1, 1 >>

RECURSIVE RSumSeqS(_)
RSumSeqS(s) == IF s = << >> THEN RInt(0) ELSE RAddS(Head(s), RSumSeqS(Tail(s)))
RECURSIVE RProdSeq(_)
RProdSeq(s) == IF s = << >> THEN One ELSE RMulX(Head(s), RProdSeq(Tail(s)))

\* TLC keeps [i \in S |-> e] as a lazy function and re-evaluates e on every application;
\* concatenating with the empty sequence turns it into an explicit tuple once
Force(s) == s \o << >>

\* period returns (first = 0) and compounded cumulative returns
Returns(x) == Force([i \in 1..Len(x) |-> IF i = 1 THEN RInt(0) ELSE RNorm(R(x[i] - x[i - 1], x[i - 1]))])
RECURSIVE CumLoop(_, _, _)
CumLoop(rs, t, acc) == IF t > Len(rs) THEN acc
                       ELSE CumLoop(rs, t + 1, Append(acc, RMulX(IF t = 1 THEN One ELSE acc[t - 1], RAddS(One, rs[t]))))
CumOf(rs)  == CumLoop(rs, 1, << >>)            \* exp(cumsum(log(1 + r))) in exact arithmetic
Cum(x)     == CumOf(Returns(x))

RMax(a, b) == IF RLeS(a, b) THEN b ELSE a

(* ---- create_drawdowns: the explicit loop ---- *)
RECURSIVE HwmLoop(_, _, _)
HwmLoop(c, t, acc) ==        \* acc = hwm[1..t-1]
  IF t > Len(c) THEN acc ELSE HwmLoop(c, t + 1, Append(acc, RMax(acc[t - 1], c[t])))
Hwm(c) == HwmLoop(c, 2, << IF HWM_SEEDS_FIRST THEN c[1] ELSE RInt(0) >>)
DrawdownsOp(c) ==
  LET h == Hwm(c)
  IN  Force([t \in 1..Len(c) |-> IF t = 1 THEN RInt(0) ELSE RMulX(RSubS(h[t], c[t]), R(h[t][2], h[t][1]))])

(* ---- declarative ---- *)
RunMax(c, t) == CHOOSE m \in { c[j] : j \in 1..t } : \A j \in 1..t : RLeS(c[j], m)      \* max of c[1..t]
DrawdownsDecl(c) == Force([t \in 1..Len(c) |-> LET m == RunMax(c, t) IN RSubS(One, RMulX(c[t], R(m[2], m[1])))])

RECURSIVE RMaxSeq(_)
RMaxSeq(s) == IF Len(s) = 1 THEN s[1] ELSE RMax(s[1], RMaxSeq(Tail(s)))
\* longest run of consecutive non-zero entries
RECURSIVE LongestRun(_, _, _, _)
LongestRun(dd, t, cur, best) ==
  IF t > Len(dd) THEN best
  ELSE LET c2 == IF dd[t][1] # 0 THEN cur + 1 ELSE 0
       IN  LongestRun(dd, t + 1, c2, IF c2 > best THEN c2 ELSE best)
Duration(dd) == LongestRun(dd, 1, 0, 0)

(* ---- aggregation ---- *)
WeekKey(d)  == << YearOf(d), MonthOf(d), IsoYearWeek(d)[2] >>
MonthKey(d) == << YearOf(d), MonthOf(d) >>
YearKey(d)  == << YearOf(d) >>
Key(kind, d) == IF kind = "weekly" THEN WeekKey(d) ELSE IF kind = "monthly" THEN MonthKey(d) ELSE YearKey(d)
KeySeq(kind, days) == Force([i \in 1..Len(days) |-> Key(kind, days[i])])
\* compounded return of the observations whose date falls in group k (rs = returns, ks = their group keys)
GroupReturn(rs, ks, k) ==
  RSubS(RProdSeq(Force([i \in 1..Len(rs) |-> IF ks[i] = k THEN RAddS(One, rs[i]) ELSE One])), One)
AggregateOf(rs, ks) == [k \in { ks[i] : i \in 1..Len(ks) } |-> GroupReturn(rs, ks, k)]
Aggregate(kind, x, days) == AggregateOf(Returns(x), KeySeq(kind, days))

(* ---- moments ---- *)
Mean(rs)   == RMulX(RSumSeqS(rs), R(1, Len(rs)))
PopVar(rs) == LET m == Mean(rs)
              IN  RMulX(RSumSeqS([i \in 1..Len(rs) |-> RMulX(RSubS(rs[i], m), RSubS(rs[i], m))]), R(1, Len(rs)))
Negatives(rs) == SelectSeq(rs, LAMBDA r : r[1] < 0)

(* ---- C17 ---- *)
RECURSIVE SetProd(_, _)
SetProd(S, f) == IF S = {} THEN One ELSE LET k == CHOOSE y \in S : TRUE IN RMulX(RAddS(One, f[k]), SetProd(S \ {k}, f))
C17_Drawdowns(x)  == LET c == Cum(x)
                         op == DrawdownsOp(c)
                         de == DrawdownsDecl(c)
                     IN  \A t \in 1..Len(x) : REq(op[t], de[t])
C17_CumIsRatio(x) == LET c == Cum(x) IN \A t \in 1..Len(x) : REq(c[t], R(x[t], x[1]))
C17_Aggregates(x, days) ==
  LET rs == Returns(x) IN
  \A kind \in {"weekly", "monthly", "yearly"} :
    LET agg == AggregateOf(rs, KeySeq(kind, days))
    IN  REq(SetProd(DOMAIN agg, agg), R(x[Len(x)], x[1]))
C17_Scale(x, k) ==
  LET y  == Force([i \in 1..Len(x) |-> k * x[i]])
      rx == Returns(x)
      ry == Returns(y)
      dx == DrawdownsOp(CumOf(rx))
      dy == DrawdownsOp(CumOf(ry))
  IN  /\ \A t \in 1..Len(x) : REq(rx[t], ry[t])
      /\ \A t \in 1..Len(x) : REq(dx[t], dy[t])
=============================================================================
