------------------------------- MODULE Market -------------------------------
(***************************************************************************)
(* Daily bars -> point-in-time quotes, in the shape of                     *)
(*   qstrader/data/daily_bar_csv.py   (CSVDailyBarDataSource)              *)
(*   qstrader/data/backtest_data_handler.py                                *)
(*                                                                         *)
(* A bar FILE is a function from a set of days to rows [o, c, a] (open,    *)
(* close, adjusted close); a cell is an exact rational <<num, den>> or NaN *)
(* (den = 0).  Row order in the CSV is immaterial by construction: a file  *)
(* is a function, and the harness shuffles the rows it writes.             *)
(***************************************************************************)
EXTENDS Integers, Sequences, FiniteSets, Calendar, Rat

CONSTANTS
  Days,         \* ascending sequence of the candidate bar days
  PAD_WRAPS     \* TRUE reproduces  iloc[get_indexer(...) = -1]  wrapping to the LAST row

NaN      == << 0, 0 >>
IsNaN(x) == x[2] = 0

\* values of one bar, optionally adjusted:  open * adj/close  and  adj
OpenVal(row, adjust) ==
  IF ~adjust THEN row.o
  ELSE IF IsNaN(row.o) \/ IsNaN(row.c) \/ IsNaN(row.a) THEN NaN
  ELSE RMul(RDiv(row.a, row.c), row.o)
CloseVal(row, adjust) == IF adjust THEN row.a ELSE row.c

BarDays(f) == SelectSeq(Days, LAMBDA d : d \in DOMAIN f)       \* the file's days, sorted

(* ---------------- declarative statement (the property) ------------------ *)
\* every observation the file makes: the open at 14:30 and the close at 21:00 of each bar
Observations(f, adjust) ==
  { [t |-> At(d, OPEN),  v |-> OpenVal(f[d], adjust)]  : d \in DOMAIN f } \cup
  { [t |-> At(d, CLOSE), v |-> CloseVal(f[d], adjust)] : d \in DOMAIN f }

\* the latest non-missing observation made at or before t; NaN if there is none
Quote(f, adjust, t) ==
  LET S == { x \in Observations(f, adjust) : x.t <= t /\ ~IsNaN(x.v) }
  IN  IF S = {} THEN NaN ELSE (CHOOSE x \in S : \A y \in S : y.t <= x.t).v

(* ---------------- operational transcription of the code ------------------ *)
\* rows sorted by date, each expanded to (open time, O), (close time, C)
RECURSIVE RawSeq(_, _, _)
RawSeq(f, adjust, ds) ==
  IF ds = << >> THEN << >>
  ELSE << [t |-> At(Head(ds), OPEN), v |-> OpenVal(f[Head(ds)], adjust)],
          [t |-> At(Head(ds), CLOSE), v |-> CloseVal(f[Head(ds)], adjust)] >> \o RawSeq(f, adjust, Tail(ds))

\* DataFrame.ffill in that order
RECURSIVE FFillFrom(_, _, _)
FFillFrom(s, i, prev) ==
  IF i > Len(s) THEN << >>
  ELSE LET v == IF IsNaN(s[i].v) THEN prev ELSE s[i].v
       IN  << [t |-> s[i].t, v |-> v] >> \o FFillFrom(s, i + 1, v)
Frame(f, adjust) == FFillFrom(RawSeq(f, adjust, BarDays(f)), 1, NaN)

\* index.get_indexer([t], method='pad'): position of the last row with time <= t, 0 if none (-1 in pandas)
PadIndex(s, t) == Cardinality({ i \in 1..Len(s) : s[i].t <= t })

PadLookup(f, adjust, t) ==
  LET s == Frame(f, adjust)
      k == PadIndex(s, t)
  IN  IF k > 0 THEN s[k].v
      ELSE IF PAD_WRAPS /\ Len(s) > 0 THEN s[Len(s)].v         \* iloc[[-1]] : the LAST row
      ELSE NaN

(* ---------------- the data handler over a list of sources ---------------- *)
RECURSIVE FirstNonNaN(_, _, _)
FirstNonNaN(fs, adjust, t) ==
  IF fs = << >> THEN NaN
  ELSE LET v == PadLookup(Head(fs), adjust, t)
       IN  IF ~IsNaN(v) \/ Len(fs) = 1 THEN v ELSE FirstNonNaN(Tail(fs), adjust, t)
HandlerBid(fs, adjust, t) == FirstNonNaN(fs, adjust, t)
HandlerAsk(fs, adjust, t) == FirstNonNaN(fs, adjust, t)
HandlerMid(fs, adjust, t) == FirstNonNaN(fs, adjust, t)        \* (bid + bid) / 2

(* ---------------- properties -------------------------------------------- *)
\* rows whose OPEN time is at or before t are all that may matter
Past(f, t)     == [d \in { x \in DOMAIN f : At(x, OPEN) <= t } |-> f[d]]

SameVal(a, b) == (IsNaN(a) /\ IsNaN(b)) \/ (~IsNaN(a) /\ ~IsNaN(b) /\ REq(a, b))

\* C06: the code's lookup equals the declarative quote ...
C06_Equals(f, adjust, t)       == SameVal(PadLookup(f, adjust, t), Quote(f, adjust, t))
\* ... and is a function of the rows dated at or before t only (point-in-time)
C06_PointInTime(f, adjust, t)  == SameVal(PadLookup(f, adjust, t), PadLookup(Past(f, t), adjust, t))
\* no bar opens at or before t  =>  NaN
C06_NaNBefore(f, adjust, t)    == (\A d \in DOMAIN f : At(d, OPEN) > t) => IsNaN(PadLookup(f, adjust, t))
=============================================================================
