------------------------------ MODULE Position ------------------------------
(***************************************************************************)
(* Accounting of ONE open position, in the shape of                        *)
(* qstrader/broker/portfolio/position.py and position_handler.py.          *)
(*                                                                         *)
(* Money is an integer number of mils (1/1000 currency unit); quantities   *)
(* are integers.  The code keeps a running weighted average price per side *)
(*   avg := (avg*qty + q*p) / (qty + q)                                    *)
(* which in exact arithmetic is (total paid on that side) / (gross qty on  *)
(* that side); the record keeps the totals tb, ts and the quotients are    *)
(* formed as exact rationals where the code forms them.                    *)
(*                                                                         *)
(*   bq, sq  gross quantity bought / sold since the position was opened    *)
(*   tb, ts  sum of price*quantity over the buys / the sells (mil)         *)
(*   bc, sc  commission paid on buys / on sells (mil)                      *)
(*   px      last price seen: latest fill or mark, whichever came last     *)
(*   pclk    the position's own clock: time of its latest fill or mark     *)
(*   paid, fees   GHOST ledger for C03: sum of price * signed quantity and *)
(*           sum of commissions since the position was opened; written     *)
(*           only by the fill steps, never read by the accounting below    *)
(***************************************************************************)
EXTENDS Integers, Rat

NoPos == [none |-> TRUE]

OpenFrom(q, p, c, t) ==
  IF q > 0
  THEN [bq |-> q, sq |-> 0,  tb |-> q * p, ts |-> 0,        bc |-> c, sc |-> 0, px |-> p,
        pclk |-> t, paid |-> q * p, fees |-> c]
  ELSE [bq |-> 0, sq |-> -q, tb |-> 0,     ts |-> (-q) * p, bc |-> 0, sc |-> c, px |-> p,
        pclk |-> t, paid |-> q * p, fees |-> c]

\* Position.transact: a zero quantity returns before anything (even the price) is touched
Transact(P, q, p, c, t) ==
  IF q = 0 THEN P
  ELSE IF q > 0
  THEN [P EXCEPT !.bq = @ + q,  !.tb = @ + q * p,    !.bc = @ + c, !.px = p, !.pclk = t,
                 !.paid = @ + q * p, !.fees = @ + c]
  ELSE [P EXCEPT !.sq = @ + -q, !.ts = @ + (-q) * p, !.sc = @ + c, !.px = p, !.pclk = t,
                 !.paid = @ + q * p, !.fees = @ + c]

\* a fill of an existing position is refused (before anything is modified) when it is stamped
\* earlier than the position's clock or priced at or below zero
TransactRefused(P, q, p, t) == q # 0 /\ (t < P.pclk \/ p <= 0)

Mark(P, p, t) == [P EXCEPT !.px = p, !.pclk = t]

Net(P)         == P.bq - P.sq
MarketValue(P) == P.px * Net(P)
Direction(P)   == Sgn(Net(P))

\* avg_price: the open side's average cost with that side's commission folded in
AvgPrice(P) ==
  IF Net(P) = 0 THEN RInt(0)
  ELSE IF Net(P) > 0 THEN R(P.tb + P.bc, P.bq)
  ELSE R(P.ts - P.sc, P.sq)

(* realised_pnl, three branches exactly as written in the code:
     long :  (avg_sold - avg_bought) * sq - (sq / bq) * bc - sc      (0 if nothing sold)
     short:  (avg_sold - avg_bought) * bq - (bq / sq) * sc - bc      (0 if nothing bought)
     flat :  total_sold - total_bought - commission
   Both P&L figures of one position are kept over the common denominator Den(P) (the gross
   quantity on the open side), so that their sum needs no cross-multiplication.            *)
Den(P) == IF Net(P) > 0 THEN P.bq ELSE IF Net(P) < 0 THEN P.sq ELSE 1

RealisedNum(P) ==
  IF Net(P) > 0 THEN
       IF P.sq = 0 THEN 0
       ELSE P.ts * P.bq - P.tb * P.sq - P.bc * P.sq - P.sc * P.bq
  ELSE IF Net(P) < 0 THEN
       IF P.bq = 0 THEN 0
       ELSE P.ts * P.bq - P.tb * P.sq - P.sc * P.bq - P.bc * P.sq
  ELSE P.ts - P.tb - P.bc - P.sc

\* unrealised_pnl = (current_price - avg_price) * net_quantity ; avg_price = AvgPrice(P)
UnrealisedNum(P) ==
  IF Net(P) > 0 THEN (P.px * P.bq - (P.tb + P.bc)) * Net(P)
  ELSE IF Net(P) < 0 THEN (P.px * P.sq - (P.ts - P.sc)) * Net(P)
  ELSE 0

Realised(P)   == << RealisedNum(P), Den(P) >>
Unrealised(P) == << UnrealisedNum(P), Den(P) >>
Total(P)      == << RealisedNum(P) + UnrealisedNum(P), Den(P) >>

(***************************************************************************)
(* PositionHandler.transact_position on the map  asset -> position of one  *)
(* portfolio (a function whose domain is the set of assets held): open if  *)
(* absent, otherwise transact, and delete when the net quantity is zero.   *)
(***************************************************************************)
Without(f, a) == [x \in (DOMAIN f) \ {a} |-> f[x]]
With(f, a, v) == [x \in (DOMAIN f) \cup {a} |-> IF x = a THEN v ELSE f[x]]

TransactPositionWith(ps, a, q, p, c, t, deleteIf(_)) ==
  LET P == IF a \in DOMAIN ps THEN Transact(ps[a], q, p, c, t) ELSE OpenFrom(q, p, c, t)
  IN  IF deleteIf(Net(P)) THEN Without(ps, a) ELSE With(ps, a, P)
TransactPosition(ps, a, q, p, c, t) == TransactPositionWith(ps, a, q, p, c, t, LAMBDA n : n = 0)

(***************************************************************************)
(* C03, per position.                                                      *)
(***************************************************************************)
PnlReconciles(P) ==
  /\ REq(Total(P), RAdd(Realised(P), Unrealised(P)))
  /\ REq(Total(P), RInt(MarketValue(P) - P.paid - P.fees))
  /\ REq(Unrealised(P), RMul(RSub(RInt(P.px), AvgPrice(P)), RInt(Net(P))))
  /\ P.paid = P.tb - P.ts
  /\ P.fees = P.bc + P.sc
=============================================================================
