----------------------------- MODULE LedgerInd ------------------------------
(***************************************************************************)
(* The cash ledger of Broker.tla (C01) with SYMBOLIC integers: amounts,    *)
(* fill costs and balances range over all of Int.  The update equations    *)
(* are those of SubAcctEff / WdAcctEff / SubPfEff / WdPfEff / FillOne in    *)
(* Broker.tla.  Apalache discharges the inductive invariant                *)
(*     IndInit => IndInv          (length 0)                               *)
(*     IndInv /\ Next => IndInv'  (length 1)                               *)
(* which lifts C01_Ledger and C01_ZeroSum from TLC's bounded amounts to    *)
(* every amount, for two portfolios.  Run (offline, a few seconds):        *)
(*   apalache-mc check --init=IndInit --inv=IndInv --length=1 LedgerInd.tla *)
(***************************************************************************)
EXTENDS Integers

VARIABLES
  \* @type: Int;
  master,
  \* @type: Str -> Int;
  cash,
  \* @type: Str -> Int;
  lin,
  \* @type: Str -> Int;
  lout,
  \* @type: Str -> Int;
  lcost,
  \* @type: Int;
  extin,
  \* @type: Int;
  extout

P == {"p1", "p2"}

SubAcct(a) == /\ a >= 0
              /\ master' = master + a /\ extin' = extin + a
              /\ UNCHANGED << cash, lin, lout, lcost, extout >>
WdAcct(a)  == /\ a >= 0 /\ a <= master
              /\ master' = master - a /\ extout' = extout + a
              /\ UNCHANGED << cash, lin, lout, lcost, extin >>
SubPf(p, a) == /\ a >= 0 /\ a <= master
               /\ master' = master - a
               /\ cash' = [cash EXCEPT ![p] = @ + a]
               /\ lin' = [lin EXCEPT ![p] = @ + a]
               /\ UNCHANGED << lout, lcost, extin, extout >>
WdPf(p, a)  == /\ a >= 0 /\ a <= cash[p]
               /\ master' = master + a
               /\ cash' = [cash EXCEPT ![p] = @ - a]
               /\ lout' = [lout EXCEPT ![p] = @ + a]
               /\ UNCHANGED << lin, lcost, extin, extout >>
\* a fill: cost = price * signed quantity + commission, any integer (short sales, negative cash allowed)
Fill(p, cost) == /\ cash' = [cash EXCEPT ![p] = @ - cost]
                 /\ lcost' = [lcost EXCEPT ![p] = @ + cost]
                 /\ UNCHANGED << master, lin, lout, extin, extout >>
\* every refused request and every other call: nothing moves
Skip == UNCHANGED << master, cash, lin, lout, lcost, extin, extout >>

Next == \/ \E a \in Int : SubAcct(a) \/ WdAcct(a)
        \/ \E p \in P : \E a \in Int : SubPf(p, a) \/ WdPf(p, a) \/ Fill(p, a)
        \/ Skip

IndInv ==
  /\ \A p \in P : cash[p] = lin[p] - lout[p] - lcost[p]
  /\ master + cash["p1"] + cash["p2"] + lcost["p1"] + lcost["p2"] = extin - extout

\* an arbitrary state satisfying the invariant (every variable constrained)
IndInit ==
  /\ master \in Int /\ extin \in Int /\ extout \in Int
  /\ cash \in [P -> Int] /\ lin \in [P -> Int] /\ lout \in [P -> Int] /\ lcost \in [P -> Int]
  /\ IndInv

\* the concrete initial state of the broker
Init == /\ master = 0 /\ extin = 0 /\ extout = 0
        /\ cash = [p \in P |-> 0] /\ lin = [p \in P |-> 0] /\ lout = [p \in P |-> 0] /\ lcost = [p \in P |-> 0]
=============================================================================
