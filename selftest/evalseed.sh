#!/bin/sh
# usage: evalseed.sh <Cxx> <checks> <keep-id>
/venv/bin/python /verif/selftest/eval_seed.py /tmp/seed-$1 $1 --checks $2 --keep-as $3 2>&1 | python3 -c "
import sys,json
t=sys.stdin.read()
try:
    i=t.index('{'); j=t.rindex('}')
    r=json.loads(t[i:j+1]); print(r['property'], 'valid' if r['valid_seed'] else 'INVALID', 'tests', r['tests_with_patch'], 'demo', r['demo_with_patch']['rc'], r['demo_without_patch']['rc'], 'caught_by', r['caught_by']); print('  ', {k:(v['verdict'],v['first'][:140]) for k,v in r['checks'].items()})
except Exception as e:
    print('ERR', e, t[-600:])
"
