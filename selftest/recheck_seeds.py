"""Re-run the owning check of every kept seed (seeded/<id>/patch.diff applied to a scratch copy of /repo):
each must still alarm.   /venv/bin/python selftest/recheck_seeds.py [--jobs N] [--only id,id]"""
import argparse
import glob
import json
import os
import shutil
import subprocess
import sys
import tempfile
from concurrent.futures import ThreadPoolExecutor

HERE = os.path.dirname(os.path.abspath(__file__))
VERIF = os.path.dirname(HERE)
sys.path.insert(0, HERE)
from eval_seed import copy_repo  # noqa


def one(d):
    meta = json.load(open(os.path.join(d, "meta.json")))
    tmp = tempfile.mkdtemp(prefix="qsv-reseed-")
    ev = tempfile.mkdtemp(prefix="qsv-reseedev-")
    try:
        copy_repo(tmp, os.path.join(d, "patch.diff"))
        env = dict(os.environ, QSVERIF_REPO=tmp, VERIF_TIER="quick", QSVERIF_EVIDENCE=ev)
        # the owning property's check, or - where the change really breaks a neighbouring property's subject (recorded in
        # meta.json's caught_by) - the first check that is expected to alarm
        prop = meta["property"] if (meta["property"] in meta.get("caught_by", []) or not meta.get("caught_by")) else meta["caught_by"][0]
        p = subprocess.run([os.path.join(VERIF, "check"), prop], stdout=subprocess.PIPE, stderr=subprocess.STDOUT, env=env)
        out = p.stdout.decode("utf-8", "replace")
        first = [l.strip() for l in out.split("\n") if l.startswith("  ")][:1]
        rc = p.returncode
        if meta.get("accepted_miss") and rc == 0:
            return os.path.basename(d), prop, 1, "(accepted miss: %s)" % meta["accepted_miss"][:110]
        return os.path.basename(d), prop, rc, (first[0][:150] if first else out.strip().split("\n")[-1][:150])
    finally:
        shutil.rmtree(tmp, ignore_errors=True)
        shutil.rmtree(ev, ignore_errors=True)


def main():
    ap = argparse.ArgumentParser()
    ap.add_argument("--jobs", type=int, default=3)
    ap.add_argument("--only")
    a = ap.parse_args()
    dirs = sorted(glob.glob(os.path.join(VERIF, "seeded", "*")))
    if a.only:
        dirs = [d for d in dirs if os.path.basename(d) in a.only.split(",")]
    missed = 0
    with ThreadPoolExecutor(a.jobs) as ex:
        for name, prop, rc, first in ex.map(one, dirs):
            verdict = {0: "MISSED", 1: "caught", 2: "MACHINERY-ERROR"}.get(rc, rc)
            missed += rc != 1
            print("%-8s %s %-16s %s" % (name, prop, verdict, first))
            sys.stdout.flush()
    print("missed:", missed)
    return 1 if missed else 0


if __name__ == "__main__":
    sys.exit(main())
