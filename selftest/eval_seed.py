"""Evaluate a seeded breaking change produced independently (by a sub-agent in its own worktree).

  /venv/bin/python selftest/eval_seed.py <worktree> <property> [--checks C01,C15] [--keep-as <id>]

Steps (all on scratch copies outside /repo and /verif):
  1. take `git diff` of the worktree as the patch; 2. confirm the repository's own tests pass with
  the patch; 3. confirm the demonstration fails with the patch and passes without it; 4. run the
  named checks (default: the property's own) against the patched copy and report which alarm;
  5. with --keep-as, store patch.diff, the demonstration and meta.json under /verif/seeded/<id>/.
"""
import argparse
import glob
import json
import os
import shutil
import subprocess
import sys
import tempfile

HERE = os.path.dirname(os.path.abspath(__file__))
VERIF = os.path.dirname(HERE)


def sh(cmd, cwd=None, env=None, timeout=3600):
    p = subprocess.run(cmd, cwd=cwd, env=env, stdout=subprocess.PIPE, stderr=subprocess.STDOUT, timeout=timeout)
    return p.returncode, p.stdout.decode("utf-8", "replace")


def copy_repo(dst, patch=None):
    for sub in ("qstrader", "tests", "examples"):
        shutil.copytree(os.path.join("/repo", sub), os.path.join(dst, sub))
    for f in ("pyproject.toml",):
        if os.path.exists("/repo/" + f):
            shutil.copy("/repo/" + f, dst)
    if patch:
        rc, out = sh(["git", "apply", "--unsafe-paths", "--directory=" + dst, patch], cwd="/")
        if rc != 0:
            # fall back to patch(1)
            rc, out = sh(["patch", "-p1", "-i", patch], cwd=dst)
        if rc != 0:
            raise SystemExit("patch does not apply to the current /repo tree:\n" + out)


def main():
    ap = argparse.ArgumentParser()
    ap.add_argument("worktree")
    ap.add_argument("prop")
    ap.add_argument("--checks")
    ap.add_argument("--keep-as")
    ap.add_argument("--tier", default="quick")
    a = ap.parse_args()
    wt = a.worktree
    rc, diff = sh(["git", "-C", wt, "diff", "--", "qstrader"])
    if not diff.strip():
        raise SystemExit("no source change in %s" % wt)
    tmp = tempfile.mkdtemp(prefix="qsv-seed-")
    res = dict(property=a.prop, worktree=wt)
    try:
        patch = os.path.join(tmp, "patch.diff")
        open(patch, "w").write(diff)
        demos = sorted(glob.glob(os.path.join(wt, "demo_*.py")))
        if not demos:
            raise SystemExit("no demo_*.py in %s" % wt)
        demo = demos[0]
        mutant, clean = os.path.join(tmp, "mutant"), os.path.join(tmp, "clean")
        os.mkdir(mutant)
        os.mkdir(clean)
        copy_repo(mutant, patch)
        copy_repo(clean)
        env = dict(os.environ, PYTHONDONTWRITEBYTECODE="1")
        rc, out = sh(["/venv/bin/python", "-m", "pytest", "-q", "-p", "no:cacheprovider", "tests"], cwd=mutant, env=env)
        res["tests_with_patch"] = "pass" if rc == 0 else "FAIL"
        res["tests_tail"] = out.strip().split("\n")[-1]
        for name, d in (("demo_with_patch", mutant), ("demo_without_patch", clean)):
            shutil.copy(demo, d)
            rc, out = sh(["/venv/bin/python", os.path.basename(demo)], cwd=d, env=dict(env, PYTHONPATH=d))
            res[name] = dict(rc=rc, tail=out.strip().split("\n")[-3:])
        checks = (a.checks or a.prop).split(",")
        res["checks"] = {}
        ev = tempfile.mkdtemp(prefix="qsv-seedev-")
        for c in checks:
            e = dict(os.environ, QSVERIF_REPO=mutant, VERIF_TIER=a.tier, QSVERIF_EVIDENCE=ev)
            rc, out = sh([os.path.join(VERIF, "check"), c], env=e, timeout=7200)
            first = [l for l in out.split("\n") if l.startswith("  ")][:1]
            res["checks"][c] = dict(rc=rc, verdict={0: "ok", 1: "ALARM", 2: "machinery-error"}.get(rc, rc),
                                    first=(first[0].strip()[:400] if first else out.strip().split("\n")[-1][:300]))
        shutil.rmtree(ev, ignore_errors=True)
        ok = res["tests_with_patch"] == "pass" and res["demo_with_patch"]["rc"] != 0 and res["demo_without_patch"]["rc"] == 0
        res["valid_seed"] = ok
        res["caught_by"] = [c for c, v in res["checks"].items() if v["rc"] == 1]
        print(json.dumps(res, indent=1))
        if a.keep_as and ok:
            dst = os.path.join(VERIF, "seeded", a.keep_as)
            os.makedirs(dst, exist_ok=True)
            shutil.copy(patch, os.path.join(dst, "patch.diff"))
            shutil.copy(demo, os.path.join(dst, os.path.basename(demo)))
            notes = os.path.join(wt, "SEED_NOTES.md")
            needs = open(notes).read()[:3000] if os.path.exists(notes) else ""
            meta = dict(property=a.prop, breaks=a.prop, needs_to_manifest=needs, origin="independent sub-agent given only the property text",
                        ran=dict(tests_with_patch=res["tests_with_patch"], demo_with_patch=res["demo_with_patch"],
                                 demo_without_patch=res["demo_without_patch"], checks=res["checks"]),
                        caught_by=res["caught_by"])
            json.dump(meta, open(os.path.join(dst, "meta.json"), "w"), indent=1)
            print("kept as", dst)
    finally:
        shutil.rmtree(tmp, ignore_errors=True)


if __name__ == "__main__":
    main()
