"""Run checks against a set of BEHAVIOUR-PRESERVING changes (made by a sub-agent in its own worktree): none may alarm.

  /venv/bin/python selftest/eval_refactor.py <worktree> --checks C01,C15 [--keep-as <id>]

The worktree's `git diff -- qstrader` is applied to a scratch copy of /repo; the repository's own tests must pass; each
named check is run against the copy.  An alarm is a FALSE-ALARM CANDIDATE: either the change is not behaviour-preserving
after all (then it is a seed, not a refactoring) or the check demands more than its property.  With --keep-as the patch
is stored under /verif/selftest/refactorings/<id>.diff for re-running (selftest/recheck_refactorings.py)."""
import argparse
import json
import os
import shutil
import subprocess
import sys
import tempfile
from concurrent.futures import ThreadPoolExecutor

HERE = os.path.dirname(os.path.abspath(__file__))
VERIF = os.path.dirname(HERE)
sys.path.insert(0, HERE)
from eval_seed import copy_repo, sh  # noqa


def run_checks(repo_copy, checks, tier="quick", jobs=3):
    def one(c):
        ev = tempfile.mkdtemp(prefix="qsv-refev-")
        try:
            e = dict(os.environ, QSVERIF_REPO=repo_copy, VERIF_TIER=tier, QSVERIF_EVIDENCE=ev)
            rc, out = sh([os.path.join(VERIF, "check"), c], env=e, timeout=7200)
            first = [l for l in out.split("\n") if l.startswith("  ")][:1]
            return c, rc, (first[0].strip()[:500] if first else out.strip().split("\n")[-1][:300])
        finally:
            shutil.rmtree(ev, ignore_errors=True)
    with ThreadPoolExecutor(jobs) as ex:
        return list(ex.map(one, checks))


def main():
    ap = argparse.ArgumentParser()
    ap.add_argument("source", help="a worktree, or a .diff file")
    ap.add_argument("--checks", required=True)
    ap.add_argument("--keep-as")
    ap.add_argument("--jobs", type=int, default=3)
    a = ap.parse_args()
    tmp = tempfile.mkdtemp(prefix="qsv-ref-")
    try:
        patch = os.path.join(tmp, "patch.diff")
        if os.path.isdir(a.source):
            rc, diff = sh(["git", "-C", a.source, "diff", "--", "qstrader"])
            open(patch, "w").write(diff)
        else:
            shutil.copy(a.source, patch)
        copy = os.path.join(tmp, "copy")
        os.mkdir(copy)
        copy_repo(copy, patch)
        rc, out = sh(["/venv/bin/python", "-m", "pytest", "-q", "-p", "no:cacheprovider", "tests"], cwd=copy,
                     env=dict(os.environ, PYTHONDONTWRITEBYTECODE="1"))
        print("tests:", out.strip().split("\n")[-1])
        res = run_checks(copy, a.checks.split(","), jobs=a.jobs)
        alarms = 0
        for c, rc2, first in res:
            verdict = {0: "ok", 1: "ALARM", 2: "machinery-error"}.get(rc2, rc2)
            alarms += rc2 != 0
            print("%s %-16s %s" % (c, verdict, first if rc2 else ""))
        if a.keep_as:
            dst = os.path.join(HERE, "refactorings")
            os.makedirs(dst, exist_ok=True)
            shutil.copy(patch, os.path.join(dst, a.keep_as + ".diff"))
            json.dump(dict(checks=a.checks.split(","), tests=out.strip().split("\n")[-1]), open(os.path.join(dst, a.keep_as + ".json"), "w"))
        return 1 if alarms or rc != 0 else 0
    finally:
        shutil.rmtree(tmp, ignore_errors=True)


if __name__ == "__main__":
    sys.exit(main())
