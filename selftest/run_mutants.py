"""Apply each mutant to a scratch copy of /repo (outside /repo and /verif), confirm the repository's
own tests still pass on it, run the listed checks against the copy and report which alarm.

  /venv/bin/python selftest/run_mutants.py [--props C01,C04] [--only name,...] [--all-props] [--jobs N] [--skip-tests]
"""
import argparse
import json
import os
import shutil
import subprocess
import sys
import tempfile
from concurrent.futures import ThreadPoolExecutor

HERE = os.path.dirname(os.path.abspath(__file__))
VERIF = os.path.dirname(HERE)
sys.path.insert(0, HERE)
from mutants import MUTANTS  # noqa


def run_one(m, props, skip_tests, tier):
    d = tempfile.mkdtemp(prefix="qsv-mut-")
    try:
        for sub in ("qstrader", "tests", "examples"):
            shutil.copytree(os.path.join("/repo", sub), os.path.join(d, sub))
        for f in ("pyproject.toml",):
            if os.path.exists("/repo/" + f):
                shutil.copy("/repo/" + f, d)
        path = os.path.join(d, m["file"])
        src = open(path).read()
        if src.count(m["old"]) != 1:
            return dict(name=m["name"], error="pattern occurs %d times" % src.count(m["old"]))
        open(path, "w").write(src.replace(m["old"], m["new"]))
        res = dict(name=m["name"], expect=m["expect"], alarms={}, tests=None)
        if not skip_tests:
            p = subprocess.run(["/venv/bin/python", "-m", "pytest", "-q", "-x", "-p", "no:cacheprovider", "tests"], cwd=d,
                               stdout=subprocess.PIPE, stderr=subprocess.STDOUT, env=dict(os.environ, PYTHONDONTWRITEBYTECODE="1"))
            res["tests"] = "pass" if p.returncode == 0 else "FAIL"
        ev = tempfile.mkdtemp(prefix="qsv-mutev-")
        for pr in props:
            env = dict(os.environ, QSVERIF_REPO=d, VERIF_TIER=tier, QSVERIF_EVIDENCE=ev)
            p = subprocess.run([os.path.join(VERIF, "check"), pr], stdout=subprocess.PIPE, stderr=subprocess.STDOUT, env=env)
            out = p.stdout.decode("utf-8", "replace")
            first = [l for l in out.split("\n") if l.startswith("  ")][:1]
            res["alarms"][pr] = dict(rc=p.returncode, first=first[0][:300] if first else "")
        shutil.rmtree(ev, ignore_errors=True)
        return res
    finally:
        shutil.rmtree(d, ignore_errors=True)


def main():
    ap = argparse.ArgumentParser()
    ap.add_argument("--props")
    ap.add_argument("--only")
    ap.add_argument("--all-props", action="store_true")
    ap.add_argument("--jobs", type=int, default=2)
    ap.add_argument("--skip-tests", action="store_true")
    ap.add_argument("--tier", default="quick")
    a = ap.parse_args()
    sel = [m for m in MUTANTS if not a.only or m["name"] in a.only.split(",")]
    allp = a.props.split(",") if a.props else None

    def job(m):
        props = allp or m["expect"] or m.get("check") or ["C01"]
        return run_one(m, props, a.skip_tests, a.tier)

    with ThreadPoolExecutor(a.jobs) as ex:
        for r in ex.map(job, sel):
            if "error" in r:
                print("%-40s ERROR %s" % (r["name"], r["error"]))
                continue
            al = " ".join("%s=%s" % (k, {0: "ok", 1: "ALARM", 2: "ERR"}.get(v["rc"], v["rc"])) for k, v in r["alarms"].items())
            caught = any(r["alarms"].get(p, {}).get("rc") == 1 for p in r["expect"]) if r["expect"] else None
            print("%-40s tests=%-5s expect=%-10s %s  -> %s" % (r["name"], r["tests"], ",".join(r["expect"]), al,
                                                                  "CAUGHT" if caught else ("MISSED" if caught is False else "n/a")))
            for k, v in r["alarms"].items():
                if v["rc"] == 1:
                    print("      %s: %s" % (k, v["first"]))
            sys.stdout.flush()


if __name__ == "__main__":
    main()
