"""Prepare one round of independently seeded changes: per property a prompt file /tmp/prompt<N>-Cxx.txt (property text in
/tmp/prop-Cxx.txt; the one-line descriptions of the changes already known, taken from the DESIGN.md tables, are listed
so that the new one is of a different kind) and a scratch worktree /tmp/seed-Cxx of /repo at HEAD.

  python3 selftest/make_round.py <round number> "<hint: what kind of defect this round asks for>"
"""
import json
import os
import re
import subprocess
import sys

rnd, theme = sys.argv[1], sys.argv[2]
rows = {}
for l in open('/verif/DESIGN.md'):
    m = re.match(r'\| (C\d\d)-a(\d+) \| (.*?) \|', l)
    if m:
        rows.setdefault(m.group(1), []).append(m.group(3))
props = [json.loads(l) for l in open('/verif/properties.jsonl')]
for p in props:
    pid = p['id']
    open('/tmp/prop-%s.txt' % pid, 'w').write("Property %s: %s\n\n%s\n\nHolds for: %s\n" % (pid, p['title'], p['statement'], p['quantifier']['text']))
    known = "; ".join("(%d) %s" % (i + 1, r[:90]) for i, r in enumerate(rows.get(pid, [])))
    hint = theme + " Ordinary runs must behave exactly as before. It must be of a DIFFERENT kind from these already-known changes: " + known
    demo = "construct the library's real classes directly; synthetic CSV data written to a temporary directory if market data are needed"
    out = subprocess.run(['python3', '/verif/selftest/seed_prompt.py', pid, hint, demo], stdout=subprocess.PIPE).stdout.decode()
    open('/tmp/prompt%s-%s.txt' % (rnd, pid), 'w').write(out)
    wt = '/tmp/seed-%s' % pid
    if not os.path.exists(wt):
        subprocess.run(['git', '-C', '/repo', 'worktree', 'add', '--detach', wt, 'HEAD'], stdout=subprocess.DEVNULL, stderr=subprocess.DEVNULL)
print(len(rows), sum(len(v) for v in rows.values()))
