"""Re-run the kept behaviour-preserving changes (selftest/refactorings/<id>.diff): no check may alarm.
   /venv/bin/python selftest/recheck_refactorings.py [--only R01,S02] [--jobs N]"""
import argparse
import glob
import json
import os
import subprocess
import sys

HERE = os.path.dirname(os.path.abspath(__file__))


def main():
    ap = argparse.ArgumentParser()
    ap.add_argument("--only")
    ap.add_argument("--jobs", type=int, default=3)
    a = ap.parse_args()
    bad = 0
    for d in sorted(glob.glob(os.path.join(HERE, "refactorings", "*.diff"))):
        name = os.path.basename(d)[:-5]
        if a.only and name not in a.only.split(","):
            continue
        meta = json.load(open(d[:-5] + ".json"))
        p = subprocess.run(["/venv/bin/python", os.path.join(HERE, "eval_refactor.py"), d, "--checks", ",".join(meta["checks"]),
                            "--jobs", str(a.jobs)], stdout=subprocess.PIPE, stderr=subprocess.STDOUT)
        out = p.stdout.decode("utf-8", "replace")
        print("== %s (exit %d)" % (name, p.returncode))
        print("\n".join("   " + l[:300] for l in out.strip().split("\n")))
        sys.stdout.flush()
        bad += p.returncode != 0
    print("refactorings that raised an alarm:", bad)
    return 1 if bad else 0


if __name__ == "__main__":
    sys.exit(main())
