#!/bin/sh
# Offline set-up: nothing to build or fetch.  Parse every specification with SANY and
# byte-compile the harness so that a broken tree is reported here and not by every check.
set -e
HERE="$(cd "$(dirname "$0")" && pwd)"
cd "$HERE"
T="$(mktemp -d)"
trap 'rm -rf "$T"' EXIT
find specs -name '*.tla' -exec cp {} "$T" \;
for f in "$T"/*.tla; do
  ( cd "$T" && java -cp /opt/veriftools/tla/tla2tools.jar:/opt/veriftools/tla/CommunityModules-deps.jar tla2sany.SANY "$(basename "$f")" > "$T/sany.out" 2>&1 ) || { cat "$T/sany.out"; echo "SANY failed on $f"; exit 1; }
  if grep -q "Semantic errors\|Parse Error\|Fatal errors\|Could not" "$T/sany.out"; then cat "$T/sany.out"; echo "SANY failed on $f"; exit 1; fi
done
PYTHONDONTWRITEBYTECODE=1 /venv/bin/python - <<'PY'
import ast, glob, sys
for f in glob.glob("qsverif/*.py") + glob.glob("selftest/*.py"):
    ast.parse(open(f).read(), f)
print("harness parses")
PY
mkdir -p evidence
echo "setup ok"
